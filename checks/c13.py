"""C13 - loading untrusted bytes is total, typed-error-only and side-effect free."""
from __future__ import annotations

import os
import signal
import struct
import subprocess
import sys

from hypothesis import strategies as st

from vlib import refcodec as R
from vlib import tree, values as V
from vlib.core import Inconclusive, Part, Violation

PROPERTY = "C13"
RULE = (
    "(soups) Hypothesis token grammar over all 21 opcodes with adversarial length fields (negative, zero, off by "
    "one, larger than the rest) and a version byte that is usually right; (mutants) for every generated seed dump of "
    "at most 48 bytes ALL strict prefixes, single-byte deletions, 255 substitutions per position and 256 insertions "
    "per gap (exhaustive per seed); (fuzz) atheris coverage-guided fuzzing of loads with the same oracle in the "
    "target, empty corpus and a corpus of valid dumps. Inputs whose NEWLIST count exceeds 65536 are excluded by "
    "construction (known memory finding) and counted. Non-trivial = correct version byte and at least one "
    "well-formed opcode before the first anomaly; distinct = distinct byte string (per seed for mutants)."
)
ASSUMPTIONS = [
    "the audit-hook event list (exec/compile/os.system/os.exec*/fork/posix_spawn/subprocess/socket/ctypes/"
    "marshal/pickle/open/import outside encodings) is the executable reading of 'never runs code, side-effect free'",
    "termination is checked with a 60 s alarm per batch of inputs of at most 64 KB",
    "NEWLIST counts above 65536 are never executed (known finding: allocation proportional to the length field)",
]

NEWLIST_CAP = 65536

_armed = False
_events = []
_FORBIDDEN_PREFIX = ("os.system", "os.exec", "os.fork", "os.forkpty", "os.posix_spawn", "os.spawn", "subprocess.",
                     "socket.", "ctypes.", "marshal.loads", "pickle.find_class", "open", "exec", "compile",
                     "os.remove", "os.rename", "os.mkdir", "os.rmdir", "os.kill", "os.putenv", "shutil.",
                     "sys.settrace", "sys.setprofile", "code.__new__", "function.__new__")


def _hook(event, args):
    if not _armed:
        return
    if event == "import":
        name = args[0]
        if name.startswith("encodings"):
            return
        _events.append((event, name))
        return
    if event.startswith(_FORBIDDEN_PREFIX):
        _events.append((event, repr(args)[:100]))


_hook_installed = False


def arm():
    global _hook_installed, _armed
    if not _hook_installed:
        # warm up what loads may legitimately touch lazily, before arming
        b"x".decode("utf-8"), b"\xff".decode("latin-1"), "x".encode("ascii"), int("12"), struct.calcsize("!d")
        try:
            b"\xff".decode("utf-8")
        except UnicodeDecodeError:
            pass
        sys.addaudithook(_hook)
        _hook_installed = True
    del _events[:]
    _armed = True


def disarm():
    global _armed
    _armed = False


def _gb():
    tree.use()
    from execnet import gateway_base

    return gateway_base


def nontrivial_input(b: bytes) -> bool:
    if b[:1] != R.VERSION:
        return False
    toks = R.tokenize(b)
    return len(toks) >= 1 and toks[0][1] is not None and toks[0][2] != "short" and not (
        isinstance(toks[0][2], tuple))


class _Alarm(BaseException):
    pass


def _on_alarm(signum, frame):
    raise _Alarm()


_handler_installed = False
PER_INPUT_SECONDS = 2.0  # loads of a <=64 KB input normally takes microseconds


def judge(gb, data: bytes, flags=(False, False), expect_fail=False):
    """Run loads(data) under the oracle.  -> 'value' | 'DataFormatError' | 'EOFError'.
    Raises Violation (also for non-termination: a 2 s interval timer per input)."""
    global _handler_installed
    if not _handler_installed:
        signal.signal(signal.SIGALRM, _on_alarm)
        _handler_installed = True
    signal.setitimer(signal.ITIMER_REAL, PER_INPUT_SECONDS)
    arm()
    try:
        try:
            res = gb.loads(data, py2str_as_py3str=flags[0], py3str_as_py2str=flags[1])
            out = "value"
        except gb.DataFormatError:
            out = "DataFormatError"
        except EOFError:
            out = "EOFError"
        except _Alarm as e:
            disarm()
            raise Violation("loads.nontermination", f"no result within {PER_INPUT_SECONDS} s for a {len(data)}-byte input",
                            exc=e) from None
        except BaseException as e:  # noqa: BLE001
            disarm()
            raise Violation("loads.wrong-exception", exc=e) from None
    finally:
        signal.setitimer(signal.ITIMER_REAL, 0)
        disarm()
    if _events:
        ev = list(_events)
        raise Violation("loads.side-effect", f"audit events during loads: {ev[:5]}", site=ev[0][0])
    if out == "value":
        if not V.only_supported(res):
            raise Violation("loads.foreign-type", f"result contains an unsupported type: {res!r:.200}")
        if expect_fail:
            raise Violation("loads.prefix-accepted", f"strict prefix of a valid dump loaded as {res!r:.200}")
    return out


FUSE = 4  # after this many non-terminating inputs a shard stops executing further inputs (each costs 2 s)


def fuse_blown(ctx):
    return ctx.extra.get("nontermination_seen", 0) >= FUSE


# ----------------------------------------------------------------------------- soups


def _len_field(true_len):
    return st.one_of(
        st.just(true_len), st.just(true_len), st.just(true_len),
        st.sampled_from([-1, -2, 0, 1, true_len - 1, true_len + 1, 2**31 - 1, -(2**31), 255, 65536]),
        st.integers(-8, 64),
    )


def _token():
    i4 = st.one_of(st.integers(-3, 12), st.sampled_from([-(2**31), 2**31 - 1, 65536, 255, 256]))
    payload = st.binary(max_size=12)
    textish = st.one_of(payload, st.text(max_size=6).map(lambda s: s.encode("utf-8")),
                        st.integers(-10**30, 10**30).map(lambda n: str(n).encode()),
                        st.sampled_from([b"12L", b"", b"-", b"+5", b" 7", b"1_000", b"0x10", b"\xff\xfe", b"\xed\xa0\x80"]))

    def strtok(op):
        return textish.flatmap(lambda p: _len_field(len(p)).map(lambda n: op + R.i4(n) + p))

    simple = st.sampled_from([R.OP[k] for k in ("NONE", "TRUE", "FALSE", "NEWDICT", "SETITEM", "STOP")])
    capped = st.one_of(st.integers(-3, 12), st.sampled_from([255, 256, 65536, -(2**31)]))
    return st.one_of(
        simple, simple,
        i4.map(lambda n: R.OP["INT"] + R.i4(n)),
        i4.map(lambda n: R.OP["LONG"] + R.i4(n)),
        capped.map(lambda n: R.OP["NEWLIST"] + R.i4(n)),
        st.sampled_from([2**31 - 1, 65537, 10**6]).map(lambda n: R.OP["NEWLIST"] + R.i4(n)),  # excluded, counted
        i4.map(lambda n: R.OP["BUILDTUPLE"] + R.i4(n)),
        i4.map(lambda n: R.OP["SET"] + R.i4(n)),
        i4.map(lambda n: R.OP["FROZENSET"] + R.i4(n)),
        i4.map(lambda n: R.OP["CHANNEL"] + R.i4(n)),
        st.binary(min_size=0, max_size=8).map(lambda b: R.OP["FLOAT"] + b),
        st.binary(min_size=8, max_size=8).map(lambda b: R.OP["FLOAT"] + b),
        st.binary(min_size=16, max_size=16).map(lambda b: R.OP["COMPLEX"] + b),
        st.binary(min_size=0, max_size=15).map(lambda b: R.OP["COMPLEX"] + b),
        strtok(R.OP["BYTES"]), strtok(R.OP["PY3STRING"]), strtok(R.OP["PY2STRING"]),
        strtok(R.OP["UNICODE"]), strtok(R.OP["LONGINT"]), strtok(R.OP["LONGLONG"]),
        st.binary(min_size=1, max_size=1),  # arbitrary (mostly unknown) opcode
    )


def soups():
    ver = st.one_of(st.just(R.VERSION), st.just(R.VERSION), st.just(R.VERSION), st.binary(max_size=1))
    body = st.lists(_token(), max_size=14).map(b"".join)
    tail = st.sampled_from([b"", R.OP["STOP"], R.OP["STOP"], R.OP["STOP"] + b"x"])
    flags = st.tuples(st.booleans(), st.booleans())
    return st.tuples(ver, body, tail, flags).map(lambda t: (t[0] + t[1] + t[2], t[3]))


class Soups(Part):
    name = "soups"
    budget = {"quick": 40000, "thorough": 2000000}
    expect_labels = ("out:value", "out:DataFormatError", "out:EOFError", "excluded:newlist")

    def strategy(self, ctx):
        return soups()

    def encode(self, case):
        return [case[0].hex(), list(case[1])]

    def decode(self, j):
        return (bytes.fromhex(j[0]), tuple(j[1]))

    def run(self, case, ctx):
        data, flags = case
        gb = _gb()
        if R.max_newlist(data) > NEWLIST_CAP:
            ctx.count("excluded_newlist_over_cap")
            return dict(labels=["excluded:newlist"], nontrivial=False)
        if fuse_blown(ctx):
            ctx.count("skipped_after_nontermination_fuse")
            return dict(labels=["skipped:fuse"], nontrivial=False, count=0)
        try:
            out = judge(gb, data, flags)
        except Violation as v:
            if v.clause == "loads.nontermination":
                ctx.count("nontermination_seen")
            raise
        # agreement with the reference decoder on *whether* the input is acceptable (value vs error)
        labels = ["out:" + out]
        try:
            R.ref_loads(data, *flags)
            ref = "value"
        except R.RefEOF:
            ref = "EOFError"
        except R.RefFormatError:
            ref = "DataFormatError"
        labels.append("ref:" + ref)
        return dict(labels=labels, nontrivial=nontrivial_input(data))


# ----------------------------------------------------------------------------- exhaustive mutants of small dumps


class Mutants(Part):
    name = "mutants"
    budget = {"quick": 320, "thorough": 4000}
    min_per_shard = 10

    def strategy(self, ctx):
        vals = V.values(max_leaves=4).map(lambda v: ("seed", v))
        return vals

    def encode(self, case):
        if case[0] == "seed":
            return ["seed", V.to_json(case[1])]
        return ["input", case[1].hex(), case[2]]

    def decode(self, j):
        if j[0] == "seed":
            return ("seed", V.from_json(j[1]))
        return ("input", bytes.fromhex(j[1]), j[2])

    def run(self, case, ctx):
        gb = _gb()
        if case[0] == "input":
            judge(gb, case[1], expect_fail=(case[2] == "prefix"))
            return dict(nontrivial=True)
        if fuse_blown(ctx):
            ctx.count("skipped_after_nontermination_fuse")
            return dict(labels=["skipped:fuse"], nontrivial=False, count=0)
        seed = R.ref_dumps(case[1])
        if len(seed) > 48:
            ctx.count("seeds_over_48_bytes_skipped")
            return dict(labels=["seed>48"], nontrivial=False, count=0)
        seen = set()
        n = nt = 0
        viol = []
        lab = {}

        class _Stop(Exception):
            pass

        def one(data, kind):
            nonlocal n, nt
            if data in seen:
                return
            seen.add(data)
            if R.max_newlist(data) > NEWLIST_CAP:
                ctx.count("excluded_newlist_over_cap")
                return
            n += 1
            try:
                out = judge(gb, data, expect_fail=(kind == "prefix"))
            except Violation as v:
                viol.append((v, ("input", data, kind)))
                if v.clause == "loads.nontermination":
                    ctx.count("nontermination_seen")
                    raise _Stop() from None  # every further hang would cost another 2 s: end this neighbourhood
                return
            lab[kind + ":" + out] = lab.get(kind + ":" + out, 0) + 1
            if nontrivial_input(data):
                nt += 1

        try:
            for k in range(len(seed)):
                one(seed[:k], "prefix")
            for k in range(len(seed)):
                one(seed[:k] + seed[k + 1:], "del")
                orig = seed[k]
                for b in range(256):
                    if b != orig:
                        one(seed[:k] + bytes([b]) + seed[k + 1:], "sub")
            for k in range(len(seed) + 1):
                for b in range(256):
                    one(seed[:k] + bytes([b]) + seed[k:], "ins")
        except _Stop:
            pass
        return dict(count=n, nontrivial_count=nt, violations=viol, label_counts=lab, nontrivial=True,
                    sample={"seed": seed.hex(), "mutants": n})


# ----------------------------------------------------------------------------- atheris


FUZZ_RUNS = {"quick": 150000, "thorough": 0}
FUZZ_SECONDS = {"quick": 0, "thorough": 600}


class Fuzz(Part):
    """coverage-guided fuzzing of loads with atheris (python3-vt); one libFuzzer process per shard"""

    name = "fuzz"
    budget = {"quick": 16, "thorough": 16}
    min_per_shard = 1

    def cases(self, ctx):
        yield ("campaign", ctx.shard)

    def encode(self, case):
        if case[0] == "campaign":
            return ["campaign", case[1]]
        return ["input", case[1].hex()]

    def decode(self, j):
        if j[0] == "campaign":
            return ("campaign", j[1])
        return ("input", bytes.fromhex(j[1]))

    def run(self, case, ctx):
        gb = _gb()
        if case[0] == "input":
            judge(gb, case[1])
            return dict(nontrivial=True)
        vt = "/opt/veriftools/pyvenv/bin/python"
        if not os.path.exists(vt):
            ctx.count("atheris_unavailable")
            return dict(labels=["atheris-unavailable"], nontrivial=False, count=0)
        out = os.path.join(ctx.scratch, "fuzz")
        corpus = os.path.join(out, "corpus")
        os.makedirs(corpus)
        shard = case[1]
        if shard % 2 == 1:  # odd shards start from valid dumps, even shards from an empty corpus
            seeds = [None, True, 5, 2**40, 1.5, 1j, b"ab", "x€", [1, "a"], (1, 2), {"k": [1]}, {1, 2}, frozenset([3])]
            for i, v in enumerate(seeds):
                with open(os.path.join(corpus, f"seed{i}"), "wb") as f:
                    f.write(R.ref_dumps(v))
        args = [vt, os.path.join(tree.VERIF, "vlib", "fuzz_loads.py"), corpus, f"-seed={ctx.seed * 100 + shard + 1}",
                "-max_len=256", "-print_final_stats=1", "-timeout=5", f"-artifact_prefix={out}/artifact-"]
        if FUZZ_RUNS[ctx.tier]:
            args.append(f"-runs={FUZZ_RUNS[ctx.tier]}")
        else:
            args.append(f"-max_total_time={FUZZ_SECONDS[ctx.tier]}")
        env = tree.child_env({"VERIF_FUZZ_OUT": out, "VERIF_NEWLIST_CAP": str(NEWLIST_CAP)})
        import resource

        def unlimit():  # libFuzzer manages its own rss limit; give the child its address space back
            hard = resource.getrlimit(resource.RLIMIT_AS)[1]
            resource.setrlimit(resource.RLIMIT_AS, (hard, hard))

        p = subprocess.run(args, env=env, stdout=subprocess.PIPE, stderr=subprocess.STDOUT, preexec_fn=unlimit,
                           timeout=FUZZ_SECONDS[ctx.tier] + 900)
        log = p.stdout.decode("utf-8", "replace")
        stats = {}
        statfile = os.path.join(out, "stats.json")
        if os.path.exists(statfile):
            import json

            with open(statfile) as f:
                stats = json.load(f)
        artifacts = [fn for fn in os.listdir(out) if fn.startswith("artifact-")]
        if (p.returncode != 0 and not artifacts) or not stats:
            raise tree.HarnessError(f"atheris campaign failed rc={p.returncode}: {log[-1500:]}")
        viol = []
        for fn in sorted(os.listdir(out)):
            if fn.startswith("viol-") or fn.startswith("artifact-"):
                with open(os.path.join(out, fn), "rb") as f:
                    data = f.read()
                try:
                    judge(gb, data)  # re-judge in this interpreter: the replayable unit is the input
                except Violation as v:
                    viol.append((v, ("input", data)))
        ctx.count("fuzz_excluded_newlist_over_cap", stats.get("excluded", 0))
        return dict(count=stats.get("execs", 0), nontrivial_count=stats.get("nontrivial_distinct", 0), violations=viol,
                    label_counts={"fuzz:" + k: v for k, v in stats.get("outcomes", {}).items()}, nontrivial=True,
                    sample={"campaign": shard, "corpus": "valid dumps" if shard % 2 else "empty",
                            "execs": stats.get("execs", 0), "example_inputs": stats.get("examples", [])[:3]})


ALLOC_CHILD = r"""
import resource, sys
sys.path.insert(0, sys.argv[1])
from execnet import gateway_base as gb
data = bytes.fromhex(sys.argv[2])
soft = 1 << 30
resource.setrlimit(resource.RLIMIT_AS, (soft, soft))
try:
    gb.loads(data)
    print("value")
except gb.DataFormatError:
    print("DataFormatError")
except EOFError:
    print("EOFError")
except MemoryError:
    print("MemoryError")
except BaseException as e:
    print("other:" + type(e).__name__)
"""


class Alloc(Part):
    """The class excluded from the other parts: a NEWLIST count far beyond what the input could justify.
    Each case runs in a child process with RLIMIT_AS = 1 GiB, so nothing large is ever really allocated."""

    name = "alloc"
    budget = {"quick": 12, "thorough": 200}
    max_shards = 4
    min_per_shard = 3

    def strategy(self, ctx):
        count = st.one_of(st.just(2**31 - 1), st.integers(2**28, 2**31 - 1))
        prefix = st.sampled_from([b"", R.OP["NEWDICT"] + R.OP["INT"] + R.i4(1), R.OP["NONE"], R.OP["NEWLIST"] + R.i4(1) + R.OP["INT"] + R.i4(0)])
        return st.tuples(prefix, count).map(lambda t: R.VERSION + t[0] + R.OP["NEWLIST"] + R.i4(t[1]) + R.OP["STOP"])

    def encode(self, case):
        return case.hex()

    def decode(self, j):
        return bytes.fromhex(j)

    def run(self, data, ctx):
        p = subprocess.run([sys.executable, "-c", ALLOC_CHILD, tree.SRC, data.hex()], stdout=subprocess.PIPE,
                           stderr=subprocess.PIPE, timeout=120, env=tree.child_env())
        out = p.stdout.decode().strip()
        if out == "MemoryError" or (p.returncode != 0 and not out):
            raise Violation("loads.allocation", f"{len(data)}-byte input makes loads allocate more than 1 GiB "
                            f"(result {out or p.returncode})", site="load_newlist")
        if out.startswith("other:"):
            raise Violation("loads.wrong-exception", out, site="alloc-child")
        return dict(labels=["alloc:" + out], nontrivial=True)


PARTS = [Soups(), Mutants(), Fuzz(), Alloc()]
