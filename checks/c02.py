"""C02 - channels deliver each item exactly once, in order, to the right channel."""
from __future__ import annotations

import atexit
import itertools

from hypothesis import strategies as st

from vlib import detsched as D
from vlib import inproc, templates as TP, tree
from vlib.core import Inconclusive, Part, Violation

PROPERTY = "C02"
RULE = (
    "Generated programs of 1-4 concurrent conversations on one gateway; per conversation and direction 1-2 sender "
    "threads send tagged items [conv, dir, sender, seq, payload] and the other side consumes them with 1-2 receiver "
    "threads (receive), an iterating thread or a callback; traffic optionally runs over a sub-channel created by "
    "either side and passed over the exec channel. (sched) both gateway ends run in-process on the deterministic "
    "scheduler over scripted pipe/socket transports with generated read chunking and partial sends, schedules are "
    "generated dense choice lists plus up to 3 line-level preemptions; (exhaustive) every single line-level "
    "preemption of small programs; (real) the same programs on real popen workers with real threads and payloads up "
    "to 300 KB. Oracle: per direction the multiset of consumed items equals the sent items, each consumer sees each "
    "sender's items in increasing order, a single consumer of a single sender sees exactly the sequence, no foreign "
    "item, every send succeeds. Non-trivial = at least 2 conversations carrying items and at least 2 context "
    "switches (sched) / at least 2 conversations or a payload over 64 KB (real)."
)
ASSUMPTIONS = [
    "the scheduler serialises real threads at real primitive operations and transport reads/writes; every schedule "
    "it produces is a legal execution; its primitives are self-tested against threading/queue in every shard",
    "across unsynchronised sender threads only per-sender order and the overall multiset are asserted",
    "teardown happens after every remote body reported completion (the shutdown race belongs to C09)",
]


def program_strategy(max_convs=4, max_items=5, max_choices=40, preempts=3, blob=0, min_blob=0):
    return st.fixed_dictionaries(dict(
        convs=st.lists(TP.c02_params(max_items=max_items, max_blob=blob, min_blob=min_blob), min_size=1, max_size=max_convs),
        sparse=st.fixed_dictionaries(dict(
            pre=st.lists(st.tuples(st.one_of(st.integers(0, 30), st.integers(0, 400)), st.integers(0, 5)).map(list),
                         max_size=max_choices),
            blk=st.lists(st.integers(0, 5), max_size=60))),
        preempt=st.lists(st.integers(0, 999), max_size=preempts),
        transport=st.sampled_from(["pipe", "socket"]),
        chunks=st.lists(st.one_of(st.integers(1, 40), st.integers(100, 5000)), max_size=4),
        send_chunks=st.lists(st.integers(1, 64), max_size=3),
        backend_b=st.sampled_from(["thread", "thread", "main_thread_only"]),
    ))


def _with_alt(case, alt):
    """the forced line-level preemption takes its alternative from the 'blk' list: give every entry that value"""
    sp = case["sparse"]
    return dict(case, sparse=dict(pre=sp["pre"], blk=[alt] * 8))


def describe_deadlock(e):
    return f"blocked: {e.blocked}\n" + "\n".join(f"--- {k}\n{v}" for k, v in list(e.stacks.items())[:5])


def run_inproc(case, preempt_at=(), count_lines=False, focus=None):
    sequential = case["backend_b"] == "main_thread_only"
    program, expects = TP.build_c02_program(case["convs"], sequential=sequential)
    out = inproc.run_program(program, sparse=case["sparse"], preempt_at=preempt_at, transport=case["transport"],
                             backend_b=case["backend_b"], chunks_ab=case["chunks"], chunks_ba=case["chunks"][::-1],
                             send_chunks=case["send_chunks"], count_lines=count_lines, focus=focus)
    return out, expects


def judge(out, expects, clause="deliver"):
    if out.budget:
        raise Inconclusive("step budget")
    if out.deadlock is not None:
        raise Violation(f"{clause}.blocks-forever", describe_deadlock(out.deadlock))
    for name, exc in out.unhandled:
        raise Violation(f"{clause}.thread-died", f"thread {name}: {exc!r}", exc=exc)
    res = out.result
    if res is None:
        raise Violation(f"{clause}.no-result", "program did not finish")
    TP.check_actor_health(res, clause)
    if res["report"] != "ok":
        raise Violation(f"{clause}.report-failed", res["report"])
    for ex in expects:
        TP.check_direction(res, ex, clause)
    if out.sched.escalations:
        raise Violation(f"{clause}.escalation", f"worker escalated: {out.sched.escalations}")
    late = inproc.late_wakeups(out.sched)
    if late:
        raise Violation(f"{clause}.lost-wakeup", f"a blocked call was never woken, it only returned by its 60 s timeout: {late}")


class Sched(Part):
    name = "sched"
    budget = {"quick": 2400, "thorough": 150000}

    def setup(self, ctx):
        D.preimport()
        D.selftest(40, seed=ctx.seed)

    def strategy(self, ctx):
        return program_strategy(blob=20000)

    def run(self, case, ctx):
        pre = ()
        if case["preempt"]:
            out0, expects = run_inproc(case, count_lines=True)
            judge(out0, expects)
            n = max(1, out0.lines)
            pre = sorted({1 + (f * n) // 1000 for f in case["preempt"]})
        out, expects = run_inproc(case, preempt_at=pre)
        judge(out, expects)
        carrying = sum(1 for p in case["convs"] if any(p["a2b"]) or any(p["b2a"]))
        labels = [case["transport"], "b:" + case["backend_b"], f"convs:{len(case['convs'])}"]
        labels += sorted({"kind_a:" + p["kind_a"] for p in case["convs"]} | {"kind_b:" + p["kind_b"] for p in case["convs"]})
        if any(p["sub"] for p in case["convs"]):
            labels.append("sub-channel")
        if any(len(p["a2b"]) > 1 or len(p["b2a"]) > 1 for p in case["convs"]):
            labels.append("multi-sender")
        if any((p["kind_a"] == "recv" and p["rcv_a"] > 1) or (p["kind_b"] == "recv" and p["rcv_b"] > 1) for p in case["convs"]):
            labels.append("multi-receiver")
        if pre:
            labels.append("line-preempt")
        if out.sched.preempt_fired:
            labels.append("preempt-fired")
        return dict(labels=labels, nontrivial=carrying >= 2 and out.sched.switches >= 2,
                    sample={"convs": len(case["convs"]), "switches": out.sched.switches, "steps": out.sched.steps,
                            "first_conv": {k: (v if k not in ("a2b", "b2a") else [len(x) for x in v])
                                           for k, v in case["convs"][0].items()}})


FOCUS = {"send", "_send", "to_io", "write", "from_io", "read", "_thread_receiver", "received", "_channel_data", "_local_receive",
         "receive", "setcallback", "new", "newchannel", "remote_exec", "load_channel", "save_Channel", "__next__", "next"}


class Exhaustive(Part):
    """every single line-level preemption inside the send / frame / receive path x every other runnable thread x
    delay/yield x both default thread orders, for small programs (complete in the thorough tier, strided in quick)"""

    name = "exhaustive"
    budget = {"quick": 16, "thorough": 250}
    min_per_shard = 1

    def setup(self, ctx):
        D.preimport()

    def strategy(self, ctx):
        # half of the payloads are 8-12 KB blobs: sizes at which an implementation may treat header and payload separately
        # (byte-wise chunking of such payloads would cost thousands of scheduling points per message: reads come in
        # pieces of at least 2000 bytes here and sends are not split; fine-grained chunking is the sched part's job)
        return program_strategy(max_convs=2, max_items=2, max_choices=0, preempts=0, blob=12000, min_blob=8200).map(
            lambda c: dict(c, chunks=[max(x, 2000) for x in c["chunks"]], send_chunks=[]))

    def run(self, case, ctx):
        from vlib import explore

        single = case.get("single")
        if single is not None:
            out, expects = run_inproc(dict(case, sparse=explore.line_sparse(single[1])), preempt_at=(single[0],), focus=FOCUS)
            judge(out, expects)
            return dict(nontrivial=True)
        runs, viol, n = 0, [], 0
        for order in (0, 1):
            out0, expects = run_inproc(dict(case, sparse=explore.base_sparse(order)), count_lines=True, focus=FOCUS)
            judge(out0, expects)
            n = out0.lines

            def one(line, alt):
                out, ex = run_inproc(dict(case, sparse=explore.line_sparse(alt)), preempt_at=(line,), focus=FOCUS)
                try:
                    judge(out, ex)
                except Violation as v:
                    v.sched = out.sched
                    raise
                return out.sched

            r, found, inc = explore.single_preemptions(one, n, explore.plan_stride(n, ctx.tier, 450), ctx.seed, order=order,
                                                       max_runs=None if ctx.tier == "thorough" else 500)
            runs += r
            viol += [(v, dict(case, single=list(la))) for v, la in found]
            if inc:
                ctx.count("inconclusive_runs", inc)
        return dict(count=runs, nontrivial_count=runs, violations=viol[:3], nontrivial=True,
                    labels=[case["transport"], "b:" + case["backend_b"]], sample={"focus_lines": n, "runs": runs})


_pid = itertools.count(1)


class Real(Part):
    """the same programs on a real popen worker with real threads (cross-check of scheduler fidelity)"""

    name = "real"
    budget = {"quick": 160, "thorough": 6000}
    max_shards = 8
    min_per_shard = 10

    def setup(self, ctx):
        execnet = tree.use()
        self.group = execnet.Group()
        self.gw = self.group.makegateway("popen")
        self.n = 0

    def teardown(self, ctx):
        from vlib.core import Watchdog

        try:
            with Watchdog(30):
                self.group.terminate(timeout=3.0)
        except BaseException:  # noqa: BLE001
            pass
        finally:
            atexit.unregister(self.group._cleanup_atexit)

    def strategy(self, ctx):
        return st.lists(TP.c02_params(max_items=5, max_blob=300000 if ctx.tier == "quick" else 4000000), min_size=1, max_size=3)

    def run(self, params, ctx):
        from vlib import convo

        if ctx.extra.get("hangs", 0) >= 2:
            ctx.count("skipped_after_hang_fuse")
            return dict(labels=["skipped:fuse"], nontrivial=False, count=0)
        self.n += 1
        if self.n % 40 == 0 or not self.gw.hasreceiver():
            self.gw.exit()
            self.gw = self.group.makegateway("popen")
        from vlib.core import Watchdog

        program, expects = TP.build_c02_program(params)
        with Watchdog(150) as wd:
            res = convo.run_a(self.gw, f"r{ctx.shard}-{next(_pid)}", program, inproc.CONVO_SRC)
        try:
            if wd.fired:
                ctx.count("hangs")
                raise Violation("real.hang", "program did not finish within 150 s (normal: < 2 s)")
            TP.check_actor_health(res, "real")
            if res["report"] != "ok":
                raise Violation("real.report-failed", res["report"])
            for ex in expects:
                TP.check_direction(res, ex, "real")
        except Violation:
            try:
                self.gw.exit()
            except Exception:
                pass
            self.gw = self.group.makegateway("popen")
            raise
        big = any("blob" in str(p)[:0] or _has_big(p) for p in params)
        return dict(labels=[f"convs:{len(params)}"] + (["payload>64K"] if big else []),
                    nontrivial=len(params) >= 2 or big)


def _has_big(p):
    for d in ("a2b", "b2a"):
        for sender in p[d]:
            for pl in sender:
                if isinstance(pl, dict) and ("blob" in pl or "tblob" in pl):
                    if list(pl.values())[0][2] > 65536:
                        return True
    return False


PARTS = [Sched(), Exhaustive(), Real()]
