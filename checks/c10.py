"""C10 - callback receivers see every item once, in order, then one endmarker."""
from __future__ import annotations

from hypothesis import strategies as st

from vlib import detsched as D
from vlib import explore, inproc, templates as TP
from vlib.core import Inconclusive, Part, Violation

PROPERTY = "C10"
RULE = (
    "Generated conversations in which the consumer (either side; exec channel or a sub-channel created by either "
    "side) first takes k items with receive() and then switches to a callback - before the first item, between "
    "items, or after the peer's close has already arrived - with or without an endmarker, the stream ending by an "
    "explicit close, the end of the remote_exec or a raising body; MultiChannel.make_receive_queue over 2-4 member "
    "channels; 0-2 healthy sibling conversations; both ends in-process under the deterministic scheduler "
    "(bounded-preemption schedules, line-level preemption; 'focused' enumerates every single preemption inside "
    "setcallback / the receiver-side delivery and close functions x every alternative thread). Connection loss as "
    "the end of the stream is exercised by C04. Oracle: items taken by receive() plus the callback log equal the sent "
    "sequence exactly; endmarker exactly once and last iff requested; receive() and a second setcallback are refused "
    "afterwards. Non-trivial = setcallback while at least one item was still to come, or after the close."
)
ASSUMPTIONS = [
    "a consumer without endmarker learns the end through waitclose(); callbacks for data run in the receiver thread "
    "before the close message is processed, so every item has been delivered when waitclose() returns",
]

FOCUS = {"setcallback", "_local_receive", "_local_close", "_no_longer_opened", "_finished_receiving", "close",
         "_channel_data", "_channel_close", "_channel_close_error", "_channel_last_message", "receive", "make_receive_queue",
         "putreceived", "executetask", "waitclose"}


def strategy(max_convs=2, max_sib=1, max_pre=40, preempts=3, rich_only=False):
    multi = st.fixed_dictionaries(dict(members=st.lists(st.lists(TP.payloads(), max_size=4), min_size=2, max_size=4),
                                       endmarker=st.booleans()))
    return st.fixed_dictionaries(dict(
        convs=st.lists(TP.c10_params(rich=True) if rich_only else st.one_of(TP.c10_params(), TP.c10_params(rich=True)),
                       min_size=0, max_size=max_convs),
        multi=st.one_of(st.none(), st.none(), multi),
        siblings=st.lists(TP.c02_params(max_items=3, allow_sub=False), max_size=max_sib),
        sparse=st.fixed_dictionaries(dict(
            pre=st.lists(st.tuples(st.one_of(st.integers(0, 30), st.integers(0, 300)), st.integers(0, 5)).map(list), max_size=max_pre),
            blk=st.lists(st.integers(0, 5), max_size=60))),
        preempt=st.lists(st.integers(0, 999), max_size=preempts),
        transport=st.sampled_from(["pipe", "socket"]),
    )).filter(lambda c: c["convs"] or c["multi"])


def build(case):
    convs, expects, sib = [], [], []
    k = 0
    for p in case["convs"]:
        a_ops, ex = TP.c10_conversation(k, p)
        convs.append({"id": k, "a": a_ops})
        expects.append(ex)
        k += 1
    if case["multi"]:
        a_ops, ex, bids = TP.c10_multi(k, case["multi"])
        convs.append({"id": k, "a": a_ops, "has_b": False})
        convs += [{"id": b, "a": [], "has_b": True} for b in bids]
        expects.append(ex)
        k += 1
    for sp in case["siblings"]:
        a_ops, _, ex = TP.c02_conversation(k, sp)
        convs.append({"id": k, "a": a_ops})
        sib += ex
        k += 1
    return {"convs": convs}, expects, sib


def run_case(case, preempt_at=(), count_lines=False, sparse=None, focus=None):
    program, expects, sib = build(case)
    out = inproc.run_program(program, sparse=sparse or case["sparse"], preempt_at=preempt_at, transport=case["transport"],
                             count_lines=count_lines, focus=focus)
    return out, expects, sib


def judge(case, out, expects, sib):
    if out.budget:
        raise Inconclusive("steps")
    if out.deadlock is not None:
        raise Violation("callback.blocks-forever", f"blocked: {out.deadlock.blocked}\n" + "\n".join(
            f"--- {k}\n{v}" for k, v in list(out.deadlock.stacks.items())[:4]))
    for name, exc in out.unhandled:
        raise Violation("callback.thread-died", f"thread {name} died: {exc!r}", exc=exc)
    res = out.result
    if res is None:
        raise Violation("callback.no-result", "program did not finish")
    TP.check_actor_health(res, "callback")
    if res["report"] != "ok":
        raise Violation("callback.report-failed", res["report"])
    for ex in expects:
        TP.check_c10(res, ex)
    for ex in sib:
        TP.check_direction(res, ex, "callback.sibling")
    late = inproc.late_wakeups(out.sched)
    if late:
        raise Violation("callback.lost-wakeup", f"a blocked call was never woken, it only returned by its 60 s timeout: {late}")


def labels_of(case):
    labs = sorted({f"{p['sender']}->/{p['chan']}/{p['end']}" for p in case["convs"]})
    if any(p["late"] for p in case["convs"]):
        labs.append("setcallback-after-close")
    if any(0 < p["k_before"] < len(p["items"]) for p in case["convs"]):
        labs.append("setcallback-between-items")
    if any(p["k_before"] == 0 and p["items"] for p in case["convs"]):
        labs.append("setcallback-before-first")
    if case["multi"]:
        labs.append("multichannel")
    if any(len(p["items"]) > max(p["k_before"], min(len(p["items"]), p.get("split", 0))) and p["k_before"] < len(p["items"])
           for p in case["convs"]):
        labs.append("backlog+in-flight")
    return labs


class Sched(Part):
    name = "sched"
    budget = {"quick": 2000, "thorough": 100000}

    def setup(self, ctx):
        D.preimport()
        D.selftest(30, seed=ctx.seed)

    def strategy(self, ctx):
        return strategy()

    def run(self, case, ctx):
        pre = ()
        if case["preempt"]:
            out0, ex, sib = run_case(case, count_lines=True)
            judge(case, out0, ex, sib)
            pre = sorted({1 + (f * max(1, out0.lines)) // 1000 for f in case["preempt"]})
        out, ex, sib = run_case(case, preempt_at=pre)
        judge(case, out, ex, sib)
        nt = any(p["late"] or ex_.get("in_flight") or ex_.get("backlog") for p, ex_ in zip(case["convs"], ex)) or bool(case["multi"])
        return dict(labels=labels_of(case), nontrivial=nt,
                    sample={"convs": [{k: (v if k != "items" else len(v)) for k, v in p.items()} for p in case["convs"]],
                            "multi": bool(case["multi"]), "switches": out.sched.switches})


class Focused(Part):
    name = "focused"
    budget = {"quick": 16, "thorough": 100}
    min_per_shard = 1

    def setup(self, ctx):
        D.preimport()

    def strategy(self, ctx):
        return strategy(max_convs=1, max_sib=0, max_pre=0, preempts=0, rich_only=True)

    def run(self, case, ctx):
        single = case.get("single")
        if single is not None:
            out, ex, sib = run_case(case, preempt_at=(single[0],), sparse=explore.line_sparse(single[1]), focus=FOCUS)
            judge(case, out, ex, sib)
            return dict(nontrivial=True)
        runs, viol, n, stride = 0, [], 0, 1
        for order in (0, 1):
            out0, ex, sib = run_case(case, count_lines=True, sparse=explore.base_sparse(order), focus=FOCUS)
            judge(case, out0, ex, sib)
            n = out0.lines
            stride = explore.plan_stride(n, ctx.tier, 450)

            def one(line, alt):
                out, ex, sib = run_case(case, preempt_at=(line,), sparse=explore.line_sparse(alt), focus=FOCUS)
                try:
                    judge(case, out, ex, sib)
                except Violation as v:
                    v.sched = out.sched
                    raise
                return out.sched

            r, found, inc = explore.single_preemptions(one, n, stride, ctx.seed, order=order,
                                                       max_runs=None if ctx.tier == "thorough" else 500)
            runs += r
            viol += [(v, dict(case, single=list(la))) for v, la in found]
            if inc:
                ctx.count("inconclusive_runs", inc)
        return dict(count=runs, nontrivial_count=runs, violations=viol[:3],
                    nontrivial=True, labels=labels_of(case) + ["complete" if stride == 1 else "strided"],
                    sample={"focus_lines": n, "runs": runs, "stride": stride})


PARTS = [Sched(), Focused()]
