"""C01 - serializer round-trip is total and type-exact on builtin values; unsupported values are
rejected with DumpError before anything reaches the connection and the channel stays usable."""
from __future__ import annotations

import io
import mmap

from hypothesis import strategies as st

from vlib import tree, values as V
from vlib.core import Part, Violation

PROPERTY = "C01"
RULE = (
    "Hypothesis recursive grammar over None/bool/int/float/complex/bytes/str/list/tuple/dict/set/frozenset "
    "(ints around +-2**31, 2**63, up to 2000 bits and 10**k for k in 4299..20000; floats from arbitrary 8-byte "
    "patterns; all unicode scalar values; nesting chains up to 100) for the round-trip parts, and a generated path "
    "of wrappers around one leaf of a 44-entry pool of unsupported objects for the rejection parts. A supported "
    "case is non-trivial if the value contains a container, an int outside the signed 32-bit range, a float "
    "special (nan/inf/-0.0) or a non-ASCII string; an unsupported case is non-trivial if the bad leaf is nested "
    "(depth>=1). Distinct = distinct canonical JSON of the generated case."
)
ASSUMPTIONS = [
    "tree under test is imported from $VERIF_REPO/src (asserted)",
    "fingerprint fp() and JSON codec in vlib/values.py are correct (they share no code with execnet)",
    "channel parts use one real popen worker per shard running the same source tree (echo loop)",
    "nesting depth is bounded by 100 (the recursive encoder inherits CPython's recursion limit)",
]


def _gb():
    tree.use()
    from execnet import gateway_base

    return gateway_base


class RoundTrip(Part):
    name = "roundtrip"
    budget = {"quick": 6000, "thorough": 200000}
    expect_labels = ("int>2**31-1", "int<-2**31", "float:nan", "float:-0.0", "str:astral", "dictkey:tuple",
                     "dictkey:frozenset", "empty:list", "type:complex", "type:frozenset", "int>4299digits", "depth>=10")

    def strategy(self, ctx):
        return V.all_values(big_digits=True)

    def encode(self, v):
        return V.to_json(v)

    def decode(self, j):
        return V.from_json(j)

    def run(self, v, ctx):
        gb = _gb()
        want = V.fp(v)
        try:
            data = gb.dumps(v)
        except RecursionError:
            return dict(labels=["recursion-limit"], nontrivial=False)
        except BaseException as e:  # noqa: BLE001
            raise Violation("roundtrip.dumps-raises", exc=e) from None
        if type(data) is not bytes:
            raise Violation("roundtrip.dumps-not-bytes", repr(type(data)))
        try:
            back = gb.loads(data)
        except BaseException as e:  # noqa: BLE001
            raise Violation("roundtrip.loads-raises", exc=e) from None
        if V.fp(back) != want:
            raise Violation("roundtrip.fp-mismatch", f"loads(dumps(v)) differs: got {back!r:.300}")
        # dump/load over streams
        try:
            bio = io.BytesIO()
            gb.dump(bio, v)
            streamed = bio.getvalue()
            back2 = gb.load(io.BytesIO(streamed))
            mm = mmap.mmap(-1, max(1, len(streamed)))
            try:
                mm.write(streamed)
                mm.seek(0)
                back3 = gb.load(mm)
            finally:
                mm.close()
        except BaseException as e:  # noqa: BLE001
            raise Violation("roundtrip.stream-raises", exc=e) from None
        if V.fp(back2) != want or V.fp(back3) != want:
            raise Violation("roundtrip.stream-fp-mismatch", "dump/load over a stream differs")
        if type(v) not in (set, frozenset) and not _has_set(v) and streamed != data:
            raise Violation("roundtrip.dump-vs-dumps", "dump(stream) bytes differ from dumps()")
        labels = V.classify(v)
        d = V.depth(v)
        if d >= 10:
            labels.add("depth>=10")
        return dict(labels=sorted(labels), nontrivial=V.nontrivial_value(v))


def _has_set(v):
    t = type(v)
    if t in (set, frozenset):
        return True
    if t in (list, tuple):
        return any(_has_set(x) for x in v)
    if t is dict:
        return any(_has_set(k) or _has_set(x) for k, x in v.items())
    return False


class Unsupported(Part):
    name = "unsupported"
    budget = {"quick": 3000, "thorough": 60000}
    expect_labels = ("pos:dictkey", "pos:set", "pos:top", "impostor")

    def strategy(self, ctx):
        return V.unsupported_cases()

    def encode(self, case):
        w, leaf, filler = case
        return [list(w), leaf, V.to_json(filler)]

    def decode(self, j):
        return (j[0], j[1], V.from_json(j[2]))

    def run(self, case, ctx):
        gb = _gb()
        v, depth = V.build_unsupported(case)
        try:
            data = gb.dumps(v)
        except gb.DumpError:
            pass
        except BaseException as e:  # noqa: BLE001
            raise Violation("unsupported.wrong-exception", exc=e) from None
        else:
            raise Violation("unsupported.accepted", f"leaf {case[1]} at depth {depth} was encoded: {data[:60]!r}",
                            site=_leaf_class(case[1]))
        try:
            gb.dump(io.BytesIO(), v)
        except gb.DumpError:
            pass
        except BaseException as e:  # noqa: BLE001
            raise Violation("unsupported.dump-wrong-exception", exc=e) from None
        else:
            raise Violation("unsupported.dump-accepted", f"leaf {case[1]}", site=_leaf_class(case[1]))
        labels = ["leaf:" + _leaf_class(case[1]), "pos:" + (case[0][-1] if case[0] else "top")]
        if case[1].startswith("impostor"):
            labels.append("impostor")
        return dict(labels=labels, nontrivial=depth >= 1)


def _leaf_class(name):
    if name.startswith("surrogate:"):
        return "surrogate"
    return "impostor" if name.startswith("impostor") else name


ECHO = """
for item in channel:
    if item == "__kw__":
        pass
    channel.send(item)
"""


def _kw_echo(channel, **kw):
    channel.send(kw)


class ChannelSend(Part):
    """sending v through a channel of a real popen gateway and through remote_exec kwargs"""

    name = "channel"
    budget = {"quick": 1600, "thorough": 40000}
    max_shards = 8
    min_per_shard = 100

    def strategy(self, ctx):
        sup = V.all_values(big_digits=False).map(lambda v: ("ok", v))
        uns = V.unsupported_cases().map(lambda c: ("bad", c))
        return st.one_of(sup, sup, uns)

    def encode(self, case):
        kind, x = case
        if kind == "ok":
            return ["ok", V.to_json(x)]
        return ["bad", [list(x[0]), x[1], V.to_json(x[2])]]

    def decode(self, j):
        if j[0] == "ok":
            return ("ok", V.from_json(j[1]))
        return ("bad", (j[1][0], j[1][1], V.from_json(j[1][2])))

    def setup(self, ctx):
        execnet = tree.use()
        self.group = execnet.Group()
        self._mk()

    def _mk(self):
        self.gw = self.group.makegateway("popen")
        self.ch = self.gw.remote_exec(ECHO)
        self.written = 0
        io_ = self.gw._io
        orig = io_.write

        self.wire = []

        def counting(data, orig=orig):
            self.written += len(data)
            self.wire.append(bytes(data))
            if len(self.wire) > 64:
                del self.wire[:32]
            return orig(data)

        io_.write = counting
        self.n = 0

    def teardown(self, ctx):
        import atexit

        try:
            self.group.terminate(timeout=2.0)
        finally:
            atexit.unregister(self.group._cleanup_atexit)

    def _recycle(self):
        try:
            self.gw.exit()
        except Exception:
            pass
        self._mk()

    def run(self, case, ctx):
        gb = _gb()
        kind, x = case
        self.n += 1
        if self.n % 400 == 0:
            self._recycle()
        ch = self.ch
        if kind == "ok":
            v = x
            want = V.fp(v)
            try:
                ch.send(v)
                back = ch.receive(timeout=60)
            except RecursionError:
                self._recycle()
                return dict(labels=["recursion-limit"], nontrivial=False)
            except BaseException as e:  # noqa: BLE001
                self._recycle()
                raise Violation("channel.send-receive-raises", exc=e) from None
            if V.fp(back) != want:
                raise Violation("channel.fp-mismatch", f"echo differs: {back!r:.300}")
            labels = ["via:channel"]
            # every 8th supported case also travels as a keyword argument of a remote function
            if self.n % 8 == 0:
                try:
                    c2 = self.gw.remote_exec(_kw_echo, a=v, b=[v])
                    kw = c2.receive(timeout=60)
                    c2.waitclose(timeout=60)
                except RecursionError:
                    self._recycle()
                    return dict(labels=["recursion-limit"], nontrivial=False)
                except BaseException as e:  # noqa: BLE001
                    self._recycle()
                    raise Violation("channel.kwargs-raises", exc=e) from None
                if V.fp(kw) != V.fp({"a": v, "b": [v]}):
                    raise Violation("channel.kwargs-fp-mismatch", f"kwargs differ: {kw!r:.300}")
                labels.append("via:kwargs")
            return dict(labels=labels, nontrivial=V.nontrivial_value(v))
        v, depth = V.build_unsupported(x)
        before = self.written
        del self.wire[:]
        try:
            ch.send(v)
        except gb.DumpError:
            pass
        except BaseException as e:  # noqa: BLE001
            self._recycle()
            raise Violation("channel.unsupported-wrong-exception", exc=e) from None
        else:
            self._recycle()
            raise Violation("channel.unsupported-accepted", f"leaf {x[1]} depth {depth}", site=_leaf_class(x[1]))
        if self.written != before:
            self._recycle()
            raise Violation("channel.bytes-before-dumperror", f"{self.written - before} bytes reached the connection")
        marker = ("marker", self.n)
        try:
            ch.send(marker)
            back = ch.receive(timeout=60)
        except BaseException as e:  # noqa: BLE001
            self._recycle()
            raise Violation("channel.unusable-after-dumperror", exc=e) from None
        if back != marker:
            self._recycle()
            raise Violation("channel.unusable-after-dumperror", f"next item was {back!r:.200}")
        # same for kwargs of remote_exec: nothing may be sent, gateway stays usable
        if self.n % 8 == 0:
            del self.wire[:]
            try:
                self.gw.remote_exec(_kw_echo, a=v)
            except gb.DumpError:
                pass
            except BaseException as e:  # noqa: BLE001
                self._recycle()
                raise Violation("channel.kwargs-unsupported-wrong-exception", exc=e) from None
            else:
                self._recycle()
                raise Violation("channel.kwargs-unsupported-accepted", f"leaf {x[1]}", site=_leaf_class(x[1]))
            # the channel object created for the call is dropped again, which may emit its own
            # CHANNEL_CLOSE frame; what must never reach the connection is an EXEC/DATA frame or a torso
            from vlib.refcodec import parse_frames

            wire = b"".join(self.wire)
            frames, used = parse_frames(wire)
            if used != len(wire) or any(code in (3, 4) for code, _, _ in frames):
                self._recycle()
                raise Violation("channel.kwargs-bytes-before-dumperror",
                                f"frames {[(c, i, len(p)) for c, i, p in frames]} torso={len(wire) - used}")
        return dict(labels=["via:channel-unsupported", "leaf:" + _leaf_class(x[1])], nontrivial=depth >= 1)


PARTS = [RoundTrip(), Unsupported(), ChannelSend()]
