"""C15 - bootstrapping needs nothing installed on the other side."""
from __future__ import annotations

import ast
import atexit
import builtins
import inspect
import itertools
import os
import socket
import stat
import subprocess
import sys
import time

from hypothesis import strategies as st

from vlib import convo, inproc, templates as TP, tree
from vlib.core import Part, Violation, Watchdog, kill_leftovers

PROPERTY = "C15"
RULE = (
    "Generated channel programs (the C02 conversation grammar: several channels, sender/receiver threads, callbacks, "
    "sub-channels) run on workers reached by every bootstrap path - import (baseline), exec over a pipe (python=), exec "
    "through an isolated forwarder (via=), socket server installed via an isolated gateway, the stand-alone "
    "socketserver.py script started by an isolated interpreter, and the ssh path through a stub ssh executable that "
    "runs the remote command locally - on every CPython 3.10-3.13 present, started with -I -S (no site-packages, no "
    "PYTHONPATH: 'import execnet' fails there, which every case verifies remotely first), with the thread and "
    "main_thread_only models. Oracle: the transcript oracle of C02 on every path (hence equal to the import-"
    "bootstrapped baseline), consecutive bodies on the idle worker run where they run on an import-bootstrapped worker "
    "(main_thread_only: all in the serving main thread; thread: the serving thread is used again within 9 consecutive "
    "bodies - a single body may legitimately go to a fresh thread), and at the end no module named execnet* in the "
    "worker's sys.modules. The pipe-fed paths (python=, via=, ssh) are additionally run with the remote interpreter's "
    "standard streams set to ascii / latin-1 (-S without -I plus PYTHONIOENCODING; execnet still not importable, "
    "verified remotely): the bootstrap text arrives on the remote text-mode stdin. Part 'static' is an "
    "exhaustive sweep of a finite domain (not sampling): every import statement found in the shipped sources is "
    "executed in every isolated interpreter and every free global name of the shipped source must resolve in that "
    "source or in builtins. Non-trivial = a non-import bootstrap path and a program with a sub-channel or callback."
)
ASSUMPTIONS = [
    "ssh is exercised through a local stub executable (there is no sshd in the sandbox); vagrant is not exercised",
    "interpreters: those found under /root/.pyenv/versions; eventlet/gevent are not available without site-packages",
]

_pid = itertools.count(1)
PRECHECK = ("import sys\ntry:\n    import execnet\n    channel.send('importable from ' + execnet.__file__)\n"
            "except ImportError:\n    channel.send('not importable')\nchannel.send(list(sys.version_info[:2]))\n"
            "channel.send(channel.gateway.execmodel.backend)\n")
THREADCHECK = "import threading\nchannel.send(threading.current_thread().name)\n"
POSTCHECK = "import sys\nchannel.send(sorted(m for m in sys.modules if m == 'execnet' or m.startswith('execnet.')))\n"


def free_port():
    s = socket.socket()
    s.bind(("localhost", 0))
    p = s.getsockname()[1]
    s.close()
    return p


class Paths(Part):
    name = "paths"
    budget = {"quick": 100, "thorough": 6000}
    max_shards = 10
    min_per_shard = 5

    def setup(self, ctx):
        self.execnet = tree.use()
        self.interps = tree.interpreters()
        ctx.extra["interpreters"] = sorted(self.interps)
        if "3.12" not in self.interps:
            raise tree.HarnessError("python 3.12 is mandatory for C15")
        # stub ssh: runs the 'remote' command line locally
        self.bindir = os.path.join(ctx.scratch, "bin")
        os.makedirs(self.bindir)
        stub = os.path.join(self.bindir, "ssh")
        with open(stub, "w") as f:
            f.write("#!/bin/sh\n# stub ssh for the verification harness: ssh [-C] [-F cfg] host 'cmd' -> run cmd locally\n"
                    "for last; do :; done\nexec /bin/sh -c \"$last\"\n")
        os.chmod(stub, os.stat(stub).st_mode | stat.S_IEXEC | stat.S_IXGRP | stat.S_IXOTH)
        self.saved_path = os.environ.get("PATH", "")
        os.environ["PATH"] = self.bindir + os.pathsep + self.saved_path
        self.servers = []
        # reference behaviour of the import-bootstrapped worker
        self.ref_threads = {}
        g = self.execnet.Group()
        try:
            for model in ("thread", "main_thread_only"):
                gw = g.makegateway(f"popen//execmodel={model}")
                names = []
                for _ in range(3):
                    ch = gw.remote_exec(THREADCHECK)
                    names.append(ch.receive(30))
                    ch.waitclose(30)
                self.ref_threads[model] = names
        finally:
            g.terminate(timeout=1.0)
            atexit.unregister(g._cleanup_atexit)
        ctx.extra["reference_body_threads"] = self.ref_threads

    def teardown(self, ctx):
        os.environ["PATH"] = self.saved_path
        for p in self.servers:
            try:
                p.kill()
            except Exception:
                pass
        kill_leftovers()

    def strategy(self, ctx):
        return st.fixed_dictionaries(dict(
            path=st.sampled_from(["import", "python", "via", "socket_via", "socketserver", "ssh"]),
            interp=st.sampled_from(["3.10", "3.11", "3.12", "3.13"]),
            model=st.sampled_from(["thread", "main_thread_only"]),
            # a third of the programs carry payloads of up to 2 MB (reads that come back short on sockets and pipes)
            convs=st.one_of(st.lists(TP.c02_params(max_items=3), min_size=1, max_size=3),
                            st.lists(TP.c02_params(max_items=3), min_size=1, max_size=3),
                            st.lists(TP.c02_params(max_items=2, max_blob=2000000, min_blob=262145), min_size=1, max_size=2)),
            # encoding of the remote interpreter's standard streams (the bootstrap line arrives on its text stdin)
            stdio=st.sampled_from(["default", "default", "ascii", "latin-1"]),
        ))

    def run(self, case, ctx):
        py = self.interps.get(case["interp"])
        if py is None:
            ctx.count("interpreter_missing_" + case["interp"])
            return dict(labels=["interpreter-missing:" + case["interp"]], nontrivial=False, count=0)
        iso = f"{py} -I -S"
        stdio = case.get("stdio", "default")
        saved_ioenc = os.environ.get("PYTHONIOENCODING")
        if stdio != "default" and case["path"] in ("python", "via", "ssh"):
            # -I would make the interpreter ignore PYTHONIOENCODING; -S alone keeps site-packages (and execnet) away,
            # which the remote precondition check below verifies
            iso = f"{py} -S"
            os.environ["PYTHONIOENCODING"] = stdio
        else:
            stdio = "default"
        group = self.execnet.Group()
        path, model = case["path"], case["model"]
        server = None
        try:
            with Watchdog(150) as wd:
                if path == "import":
                    gw = group.makegateway(f"popen//execmodel={model}")
                elif path == "python":
                    gw = group.makegateway(f"popen//python={iso}//execmodel={model}")
                elif path == "via":
                    group.makegateway(f"popen//python={iso}//id=fwd")
                    gw = group.makegateway(f"popen//via=fwd//python={iso}//execmodel={model}")
                elif path == "socket_via":
                    group.makegateway(f"popen//python={iso}//id=host")
                    gw = group.makegateway("socket//installvia=host")
                elif path == "socketserver":
                    port = free_port()
                    script = os.path.join(tree.SRC, "execnet", "script", "socketserver.py")
                    server = subprocess.Popen([py, "-I", "-S", script, f"localhost:{port}"], stdout=subprocess.DEVNULL,
                                              stderr=subprocess.PIPE, cwd=ctx.scratch)
                    self.servers.append(server)
                    t_end = time.time() + 10
                    gw = None
                    while gw is None:
                        if server.poll() is not None:
                            err = server.stderr.read().decode("utf-8", "replace")
                            raise Violation("paths.standalone-server-died", f"python{case['interp']} -I -S socketserver.py "
                                            f"exited with {server.returncode}: {err[-400:]}", site="socketserver")
                        try:
                            gw = group.makegateway(f"socket=localhost:{port}")
                        except OSError:
                            if time.time() > t_end:
                                raise
                            time.sleep(0.1)
                else:
                    gw = group.makegateway(f"ssh=localhost//python={iso}//execmodel={model}")
                # precondition, checked remotely: execnet cannot be imported there
                ch = gw.remote_exec(PRECHECK)
                imp, ver, backend = ch.receive(30), ch.receive(30), ch.receive(30)
                ch.waitclose(30)
                want_backend = model if path in ("import", "python", "via", "ssh") else "thread"
                if backend != want_backend or gw.remote_status().execmodel != want_backend:
                    raise Violation("paths.execmodel-ignored", f"{path}/{case['interp']}: spec asked for execmodel={want_backend}, "
                                    f"the worker runs {backend!r}", site=path)
                if path != "import" and imp != "not importable":
                    raise tree.HarnessError(f"vacuous case: execnet is {imp} on the {path} worker")
                if path not in ("import", "socket_via") and ".".join(map(str, ver)) != case["interp"]:
                    raise tree.HarnessError(f"worker runs python {ver}, expected {case['interp']}")
                # where bodies run: on an idle import-bootstrapped worker every one of a series of consecutive bodies runs
                # in the thread that serves the gateway (its main thread), whatever the model
                names = []
                ref = self.ref_threads[want_backend]
                for i in range(9):
                    ch = gw.remote_exec(THREADCHECK)
                    names.append(ch.receive(30))
                    ch.waitclose(30)
                    if want_backend == "main_thread_only" and len(names) == 3:
                        break
                    if want_backend == "thread" and names[-1] == ref[0]:
                        break
                    # thread model: a body submitted before the serving thread has re-armed itself legitimately goes to a
                    # fresh thread (timing); what an import-bootstrapped worker never does is to avoid its serving thread
                    # for good
                    time.sleep(0.02)
                bad = names != ref if want_backend == "main_thread_only" else ref[0] not in names
                if bad:
                    raise Violation("paths.body-thread-differs", f"{path}/{case['interp']}/{want_backend}: {len(names)} consecutive "
                                    f"bodies ran in threads {names}, on an import-bootstrapped worker in {ref[0]}", site=path)
                sequential = model == "main_thread_only" and path not in ("socket_via", "socketserver")
                program, expects = TP.build_c02_program(case["convs"], sequential=sequential)
                res = convo.run_a(gw, f"c15-{ctx.shard}-{next(_pid)}", program, inproc.CONVO_SRC)
                TP.check_actor_health(res, "paths")
                if res["report"] != "ok":
                    raise Violation("paths.report-failed", f"{path}/{case['interp']}/{model}: {res['report']}", site=path)
                for ex in expects:
                    try:
                        TP.check_direction(res, ex, "paths")
                    except Violation as v:
                        raise Violation(v.clause, f"{path}/{case['interp']}/{model}: {v.detail}", site=path) from None
                ch = gw.remote_exec(POSTCHECK)
                mods = ch.receive(30)
                ch.waitclose(30)
                if path != "import" and mods:
                    raise Violation("paths.execnet-module-loaded", f"{path}: the source-bootstrapped worker has {mods} in sys.modules",
                                    site=path)
            if wd.fired:
                raise Violation("paths.hang", f"{path}/{case['interp']}/{model}: did not finish within 150 s", site=path)
            rich = any(p["sub"] or p["kind_a"] == "callback" or p["kind_b"] == "callback" for p in case["convs"])
            big = any(isinstance(pl, dict) and ("blob" in pl or "tblob" in pl) and list(pl.values())[0][2] > 262144
                      for p in case["convs"] for d in ("a2b", "b2a") for sender in p[d] for pl in sender)
            return dict(labels=["path:" + path, "py:" + case["interp"], "model:" + model, "stdio:" + stdio]
                        + (["payload>256K"] if big else []),
                        nontrivial=path != "import" and rich,
                        sample={"path": path, "interp": case["interp"], "model": model, "convs": len(case["convs"])})
        except Violation:
            raise
        except tree.HarnessError:
            raise
        except BaseException as e:  # noqa: BLE001 - bootstrap failures of any kind are the finding
            raise Violation("paths.bootstrap-failed", f"{path}/{case['interp']}/{model}: {type(e).__name__}: {e}", site=path) from None
        finally:
            if saved_ioenc is None:
                os.environ.pop("PYTHONIOENCODING", None)
            else:
                os.environ["PYTHONIOENCODING"] = saved_ioenc
            try:
                with Watchdog(30):
                    group.terminate(timeout=1.0)
            except BaseException:  # noqa: BLE001
                pass
            finally:
                atexit.unregister(group._cleanup_atexit)
                if server is not None:
                    try:
                        server.kill()
                        server.wait(5)
                        server.stderr.close()
                    except Exception:
                        pass
                kill_leftovers()


# ----------------------------------------------------------------------------- exhaustive static sweep


def shipped_sources():
    """(name, source text) of everything execnet ships to the other side as source"""
    tree.use()
    from execnet import gateway_base, gateway_io, rsync_remote
    from execnet.gateway_socket import SocketIO
    from execnet.script import socketserver

    return [("gateway_base", inspect.getsource(gateway_base), "bootstrap"),
            ("SocketIO", inspect.getsource(SocketIO), "appended"),
            ("gateway_io", inspect.getsource(gateway_io), "remote_exec"),
            ("socketserver", inspect.getsource(socketserver), "remote_exec"),
            ("rsync_remote", inspect.getsource(rsync_remote), "remote_exec")]


ALLOWED_EXECNET_IMPORT = {
    # gateway_io runs remotely via remote_exec: it first tries execnet and falls back to __main__ (the bootstrapped
    # gateway_base source) - the fallback is what makes it work on a host without execnet
    ("gateway_io", "execnet.gateway_base"),
    # guarded by TYPE_CHECKING (never executed)
}


def import_statements(src):
    out = []
    tree_ = ast.parse(src)
    for node in ast.walk(tree_):
        if isinstance(node, ast.Import):
            for a in node.names:
                out.append((node.lineno, f"import {a.name}", a.name, node))
        elif isinstance(node, ast.ImportFrom):
            mod = "." * node.level + (node.module or "")
            names = ", ".join(a.name for a in node.names)
            out.append((node.lineno, f"from {mod} import {names}", mod, node))
    return out, tree_


def type_checking_lines(tree_):
    lines = set()
    for node in ast.walk(tree_):
        if isinstance(node, ast.If) and isinstance(node.test, ast.Name) and node.test.id == "TYPE_CHECKING":
            for sub in ast.walk(node):
                if hasattr(sub, "lineno"):
                    lines.add(sub.lineno)
    return lines


class Static(Part):
    """exhaustive: imports and free names of the shipped sources, per isolated interpreter"""

    name = "static"
    budget = {"quick": 1, "thorough": 1}
    max_shards = 1
    min_per_shard = 1

    def cases(self, ctx):
        yield "sweep"

    def run(self, case, ctx):
        interps = tree.interpreters()
        viol, n, labels = [], 0, {}
        for name, src, how in shipped_sources():
            stmts, tree_ = import_statements(src)
            tc = type_checking_lines(tree_)
            # 1. every import statement must succeed on every isolated interpreter (stdlib only)
            for lineno, text, mod, node in stmts:
                if lineno in tc:
                    continue
                if mod.startswith(".") or mod == "execnet" or mod.startswith("execnet."):
                    guarded = any(isinstance(p, ast.Try) and node in ast.walk(p) for p in ast.walk(tree_))
                    if (name, mod) in ALLOWED_EXECNET_IMPORT and guarded:
                        continue
                    if name == "socketserver" and guarded:
                        continue  # the stand-alone fallback (try/except ImportError)
                    viol.append((Violation("static.imports-execnet", f"shipped source {name} line {lineno}: {text!r} refers to "
                                           f"another execnet module", site=name), ["static", name, lineno]))
                    continue
                if mod == "__main__":
                    continue  # the fallback that picks the bootstrapped gateway_base source up (it *is* __main__ there)
                if mod in ("eventlet", "gevent") or mod.startswith(("eventlet.", "gevent.")) or mod in ("msvcrt", "fcntl"):
                    continue  # optional backends / platform modules, imported lazily or guarded
                for ver, py in sorted(interps.items()):
                    n += 1
                    r = subprocess.run([py, "-I", "-S", "-c", "from __future__ import annotations\n" + text.replace("from __future__ import annotations", "pass")],
                                       capture_output=True, timeout=60)
                    labels["py:" + ver] = labels.get("py:" + ver, 0) + 1
                    if r.returncode != 0:
                        viol.append((Violation("static.import-fails", f"{name} line {lineno}: {text!r} fails on python {ver} -I -S: "
                                               f"{r.stderr.decode()[-200:]}", site=name), ["static", name, lineno]))
            # 2. every free global name resolves inside the source or in builtins (bootstrap sources only)
            if how in ("bootstrap", "appended"):
                base = shipped_sources()[0][1]
                defined = module_level_names(ast.parse(base)) | (module_level_names(tree_) if how == "appended" else set())
                defined |= {"clientsock", "execmodel", "io", "channel", "__name__", "__file__", "socket"}
                for nm, ln in sorted(free_names(tree_)):
                    n += 1
                    if nm not in defined and not hasattr(builtins, nm):
                        viol.append((Violation("static.unresolved-name", f"shipped source {name} line {ln}: global name {nm!r} is "
                                               f"defined neither in the shipped source nor in builtins", site=name),
                                     ["static", name, nm]))
        uniq, seen = [], set()
        for v, c in viol:
            if v.bucket + v.detail not in seen:
                seen.add(v.bucket + v.detail)
                uniq.append((v, c))
        return dict(count=n, nontrivial_count=n, violations=uniq[:6], label_counts=labels, nontrivial=True,
                    sample={"sources": [s[0] for s in shipped_sources()], "interpreters": sorted(interps), "checks": n})


def module_level_names(tree_):
    names = set()
    for node in tree_.body:
        for sub in ast.walk(node) if isinstance(node, (ast.If, ast.Try)) else [node]:
            if isinstance(sub, (ast.FunctionDef, ast.ClassDef, ast.AsyncFunctionDef)):
                names.add(sub.name)
            elif isinstance(sub, ast.Assign):
                for t in sub.targets:
                    for x in ast.walk(t):
                        if isinstance(x, ast.Name):
                            names.add(x.id)
            elif isinstance(sub, ast.AnnAssign) and isinstance(sub.target, ast.Name):
                names.add(sub.target.id)
            elif isinstance(sub, (ast.Import, ast.ImportFrom)):
                for a in sub.names:
                    names.add((a.asname or a.name).split(".")[0])
    return names


def free_names(tree_):
    """(name, lineno) of names loaded in function/class bodies that are not local to them (conservative, via symtable-like
    walk): uses the compiler's own analysis - co_names of every nested code object that are LOAD_GLOBAL targets"""
    import dis

    out = set()
    code = compile(tree_, "<shipped>", "exec", dont_inherit=True, flags=__import__("__future__").annotations.compiler_flag)

    def walk(co):
        for ins in dis.get_instructions(co):
            # LOAD_GLOBAL only: class bodies use LOAD_NAME, which sees the names assigned in the class body first
            if ins.opname == "LOAD_GLOBAL":
                out.add((ins.argval, ins.positions.lineno if ins.positions else 0))
        for c in co.co_consts:
            if hasattr(c, "co_code"):
                walk(c)

    walk(code)
    return out


PARTS = [Paths(), Static()]
