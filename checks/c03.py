"""C03 - close is ordered after data and observed consistently by both sides."""
from __future__ import annotations

from hypothesis import strategies as st

from vlib import detsched as D
from vlib import inproc, refcodec as R, templates as TP
from vlib.core import Inconclusive, Part, Violation

PROPERTY = "C03"
RULE = (
    "Generated programs of 1-3 concurrent conversations; in each one side sends 0-6 tagged items on a channel (the "
    "exec channel or a sub-channel created by either side and passed over it) and then closes it explicitly, by "
    "dropping the last reference (with and without a callback registered) or by the end of the remote_exec, while the "
    "peer has 1-3 threads blocked in receive(), 0-2 waitclose() callers and optionally sends items the other way. "
    "Both gateway ends run in-process under the deterministic scheduler (bounded-preemption schedules, line-level "
    "preemption; part 'focused' enumerates every single preemption inside the channel close/receive functions x 5 "
    "alternative threads). Oracle: the peer's receivers together get exactly the sent items, each in order, then "
    "EOFError on 4 consecutive receive() calls each; waitclose returns; afterwards on the peer and immediately on the "
    "closing side send raises OSError, isclosed() is true, waitclose returns at once, a second close is a no-op and "
    "puts no second close frame on the wire; the closing side's own receiver sees a prefix of what was sent to it. "
    "Non-trivial = at least one item before the close and at least two blocked receivers or two context switches."
)
ASSUMPTIONS = [
    "dropping a channel that has a callback registered puts it into the documented 'sendonly' state: only delivery of "
    "the items sent before the drop and the wake-up of receivers is asserted for that case",
    "the scheduler serialises real threads at real operations; primitives self-tested per shard; virtual time",
]

FOCUS = {"close", "receive", "waitclose", "send", "_local_close", "_no_longer_opened", "_local_receive", "__del__",
         "_channel_close", "_channel_last_message", "_channel_data", "_getremoteerror", "next", "isclosed"}
BLK_PATTERNS = [[0] * 12, [1] * 12, [2] * 12, [1, 0] * 6, [3, 1] * 6]


def strategy(max_convs=3, max_pre=40, preempts=3, max_items=6):
    return st.fixed_dictionaries(dict(
        convs=st.lists(TP.c03_params(max_items), min_size=1, max_size=max_convs),
        sparse=st.fixed_dictionaries(dict(
            pre=st.lists(st.tuples(st.one_of(st.integers(0, 30), st.integers(0, 300)), st.integers(0, 5)).map(list), max_size=max_pre),
            blk=st.lists(st.integers(0, 5), max_size=60))),
        preempt=st.lists(st.integers(0, 999), max_size=preempts),
        transport=st.sampled_from(["pipe", "socket"]),
        chunks=st.lists(st.one_of(st.integers(1, 40), st.integers(100, 5000)), max_size=3),
    ))


def run_case(case, preempt_at=(), count_lines=False, sparse=None, focus=None):
    program, expects = TP.build_c03_program(case["convs"])
    out = inproc.run_program(program, sparse=sparse or case["sparse"], preempt_at=preempt_at, transport=case["transport"],
                             chunks_ab=case["chunks"], chunks_ba=case["chunks"][::-1], count_lines=count_lines,
                             keep_wire=True, focus=focus)
    return out, expects


def close_frames(out, cid):
    """(frames a->b, frames b->a) with code CLOSE/CLOSE_ERROR/LAST_MESSAGE for channel id cid"""
    res = []
    for pipe in (out.pair.ab, out.pair.ba):
        frames, _ = R.parse_frames(bytes(pipe.log))
        res.append([f[0] for f in frames if f[1] == cid and f[0] in (5, 6, 7)])
    return res


def judge(case, out, expects):
    if out.budget:
        raise Inconclusive("steps")
    if out.deadlock is not None:
        raise Violation("close.blocks-forever", f"blocked: {out.deadlock.blocked}\n" + "\n".join(
            f"--- {k}\n{v}" for k, v in list(out.deadlock.stacks.items())[:4]))
    for name, exc in out.unhandled:
        raise Violation("close.thread-died", f"{name}: {exc!r}", exc=exc)
    res = out.result
    if res is None:
        raise Violation("close.no-result", "program did not finish")
    TP.check_actor_health(res, "close")
    if res["report"] != "ok":
        raise Violation("close.report-failed", res["report"])
    for ex in expects:
        TP.check_c03(res, ex)
        # wire: exactly one closing frame from the closing side, none from the peer (a second close is a no-op)
        cid = None
        for side in ("a", "b"):
            for e in (res[side] or {}).get(f"{side}:{ex['conv']}:main", []):
                if e[0] in ("newchannel", "recv_chan") and e[1] == "ok":
                    cid = e[2]
        if ex["ch"] == "sub" and cid is not None:
            ab, ba = close_frames(out, cid)
            mine, theirs = (ab, ba) if ex["closer"] == "a" else (ba, ab)
            want = [7] if ex["how"] == "drop_cb" else [5]
            if mine != want or theirs:
                raise Violation("close.wire", f"conv {ex['conv']}: closing frames for channel {cid}: closing side sent {mine} "
                                f"(expected {want}), peer sent {theirs} (expected none)")
    if out.sched.escalations:
        raise Violation("close.escalation", f"{out.sched.escalations}")
    late = inproc.late_wakeups(out.sched)
    if late:
        raise Violation("close.lost-wakeup", f"a blocked call was never woken, it only returned by its 60 s timeout: {late}")


class Sched(Part):
    name = "sched"
    budget = {"quick": 2000, "thorough": 100000}

    def setup(self, ctx):
        D.preimport()
        D.selftest(30, seed=ctx.seed)

    def strategy(self, ctx):
        return strategy()

    def run(self, case, ctx):
        pre = ()
        if case["preempt"]:
            out0, expects = run_case(case, count_lines=True)
            judge(case, out0, expects)
            pre = sorted({1 + (f * max(1, out0.lines)) // 1000 for f in case["preempt"]})
        out, expects = run_case(case, preempt_at=pre)
        judge(case, out, expects)
        labels = [case["transport"], f"convs:{len(case['convs'])}"]
        labels += sorted({f"{p['chan']}/{p['closer']}/{p['how']}" for p in case["convs"]})
        if any(p["opposite"] for p in case["convs"]):
            labels.append("opposite-traffic")
        if any(p["closer_receiver"] for p in case["convs"]):
            labels.append("closer-receiver")
        nt = any(p["items"] and (p["receivers"] >= 2 or out.sched.switches >= 2) for p in case["convs"])
        return dict(labels=labels, nontrivial=nt,
                    sample={"convs": [{k: (v if k not in ("items", "opposite") else len(v)) for k, v in p.items()}
                                      for p in case["convs"]], "switches": out.sched.switches})


class Focused(Part):
    """every single preemption at a source line inside the channel close/receive machinery, x every alternative thread"""

    name = "focused"
    budget = {"quick": 16, "thorough": 240}
    min_per_shard = 1

    def setup(self, ctx):
        D.preimport()

    def strategy(self, ctx):
        def rich(case):
            # observers that matter for the close-ordering windows: a waitclose() caller and something to deliver
            for p in case["convs"]:
                p["waiters"] = max(1, p["waiters"])
                if not p["items"]:
                    p["items"] = [0]
            return case

        return strategy(max_convs=1, max_pre=0, preempts=0, max_items=3).map(rich)


    def run(self, case, ctx):
        from vlib import explore

        single = case.get("single")
        if single is not None:
            out, ex = run_case(case, preempt_at=(single[0],), sparse=explore.line_sparse(single[1]), focus=FOCUS)
            judge(case, out, ex)
            return dict(nontrivial=True)

        runs, viol, n, stride = 0, [], 0, 1
        for order in (0, 1):
            out0, ex = run_case(case, count_lines=True, sparse=explore.base_sparse(order), focus=FOCUS)
            judge(case, out0, ex)
            n = out0.lines
            stride = explore.plan_stride(n, ctx.tier, 450)

            def one(line, alt):
                out, ex = run_case(case, preempt_at=(line,), sparse=explore.line_sparse(alt), focus=FOCUS)
                try:
                    judge(case, out, ex)
                except Violation as v:
                    v.sched = out.sched
                    raise
                return out.sched

            r, found, inc = explore.single_preemptions(one, n, stride, ctx.seed, order=order,
                                                       max_runs=None if ctx.tier == "thorough" else 500)
            runs += r
            viol += [(v, dict(case, single=list(la))) for v, la in found]
            if inc:
                ctx.count("inconclusive_runs", inc)
        p = case["convs"][0]
        return dict(count=runs, nontrivial_count=runs, violations=viol[:3], nontrivial=True,
                    labels=[f"{p['chan']}/{p['closer']}/{p['how']}", "complete" if stride == 1 else "strided"],
                    sample={"focus_lines": n, "runs": runs, "stride": stride})


PARTS = [Sched(), Focused()]
