"""C20 - specs parse faithfully and group ids stay unique."""
from __future__ import annotations

import atexit

from hypothesis import strategies as st

from vlib import tree
from vlib.core import Part, Violation

PROPERTY = "C20"
RULE = (
    "(spec) generated lists of (key, value|bare) pieces over an alphabet with '=', ':', '/', space, unicode; keys "
    "unique, non-empty, without '=', not starting with '_'; no '//' inside a piece and no piece ending in '/' before "
    "a separator (built by construction, not filtered); env: keys; the reserved key 'env' itself is not generated. "
    "Oracle: a 20-line reference parser. (dups) the same plus one repeated key of a generated kind -> ValueError. "
    "(group) generated histories over a real Group of popen gateways: auto ids, explicit ids from a small pool that "
    "collides with live and with future auto ids, exit, terminate; container invariants after every step. "
    "(ids) 2-4 threads in allocate_id/makegateway under the deterministic scheduler (sync-point and line-level "
    "preemption). Non-trivial: >= 3 pieces with at least one special character (spec); a collision attempt (group); "
    ">= 1 context switch inside allocate_id (ids)."
)
ASSUMPTIONS = [
    "the reference parser in this file is the specification of the key1=value1//key2=value2 syntax",
    "group histories use real popen workers of the tree under test",
]

SPECIAL = "=:/ €é-._"
ALPHA = "abcxyz019" + SPECIAL + "PQ_"


def _no_double_slash(s):
    while "//" in s:
        s = s.replace("//", "/")
    return s


def _key():
    body = st.text(st.sampled_from(ALPHA.replace("=", "")), min_size=1, max_size=8).map(_no_double_slash)
    # not starting with '_', not the reserved name 'env'
    plain = body.map(lambda k: ("k" + k) if k[0] == "_" else k).map(lambda k: "envx" if k == "env" else k)
    env = body.map(lambda k: "env:" + k)
    known = st.sampled_from(["popen", "ssh", "socket", "python", "chdir", "nice", "id", "via", "execmodel",
                             "installvia", "dont_write_bytecode", "ssh_config", "vagrant_ssh"])
    return st.one_of(plain, plain, env, known)


def _value():
    return st.one_of(st.none(), st.text(st.sampled_from(ALPHA), max_size=8).map(_no_double_slash))


def _pieces(min_size=1):
    def fix(items):
        seen, out = set(), []
        for k, v in items:
            if k in seen:
                continue
            seen.add(k)
            out.append([k, v])
        # a piece ending in '/' directly before a '//' separator is inherently ambiguous
        for i, (k, v) in enumerate(out[:-1]):
            piece = k if v is None else k + "=" + v
            if piece.endswith("/"):
                if v is None:
                    k2 = k + "z"
                    if k2 in seen:
                        k2 = k + "zz" + str(i)
                    seen.add(k2)
                    out[i][0] = k2
                else:
                    out[i][1] = v + "z"
        return out

    return st.lists(st.tuples(_key(), _value()), min_size=min_size, max_size=6).map(fix)


def render(pieces):
    return "//".join(k if v is None else f"{k}={v}" for k, v in pieces)


def ref_parse(text):
    """the specification: -> (attrs, env); raises ValueError on a repeated key"""
    attrs, env, seen = {}, {}, set()
    for piece in text.split("//"):
        key, sep, value = piece.partition("=")
        val = value if sep else True
        if key in seen:
            raise ValueError(key)
        seen.add(key)
        if key.startswith("env:"):
            env[key[4:]] = val
        else:
            attrs[key] = val
    return attrs, env


def _XSpec():
    tree.use()
    from execnet.xspec import XSpec

    return XSpec


class Spec(Part):
    name = "spec"
    budget = {"quick": 5000, "thorough": 300000}

    def strategy(self, ctx):
        absent = st.lists(st.text(st.sampled_from(ALPHA.replace("=", "")), min_size=1, max_size=6), max_size=3)
        return st.tuples(_pieces(), absent)

    def encode(self, case):
        return [case[0], case[1]]

    def decode(self, j):
        return (j[0], j[1])

    def run(self, case, ctx):
        XSpec = _XSpec()
        pieces, absent = case
        text = render(pieces)
        attrs, env = ref_parse(text)
        # self-check of generator and reference parser (a mismatch is my bug, not a verdict)
        if [k for k, _ in pieces] != [p.partition("=")[0] for p in text.split("//")]:
            raise tree.HarnessError(f"generator produced an ambiguous spec {text!r}")
        try:
            spec = XSpec(text)
        except BaseException as e:  # noqa: BLE001
            raise Violation("spec.parse-raises", exc=e) from None
        for k, v in attrs.items():
            try:
                got = getattr(spec, k)
            except BaseException as e:  # noqa: BLE001
                raise Violation("spec.getattr-raises", exc=e) from None
            if got != v or type(got) is not type(v):
                raise Violation("spec.attr-differs", f"{text!r}: {k!r} -> {got!r}, expected {v!r}")
        if spec.env != env or type(spec.env) is not dict:
            raise Violation("spec.env-differs", f"{text!r}: env {spec.env!r}, expected {env!r}")
        for name in absent:
            if name in attrs or name == "env" or name[0] == "_":
                continue
            try:
                got = getattr(spec, name)
            except BaseException as e:  # noqa: BLE001
                raise Violation("spec.absent-raises", exc=e) from None
            if got is not None:
                raise Violation("spec.absent-not-none", f"{text!r}: absent name {name!r} -> {got!r}")
        if str(spec) != text:
            raise Violation("spec.str-differs", f"str() gives {str(spec)!r} for {text!r}")
        twin = XSpec(text)
        if not (spec == twin) or spec != twin or hash(spec) != hash(twin):
            raise Violation("spec.eq-hash", f"two specs of {text!r} do not compare/hash equal")
        if len({spec, twin}) != 1:
            raise Violation("spec.eq-hash", "set of two equal specs has two members")
        other = XSpec("zzextra//" + text)
        if spec == other or not (spec != other):
            raise Violation("spec.neq", f"{text!r} equals a longer spec")
        if len(pieces) >= 2 and not any((k if v is None else k + "=" + v).endswith("/") for k, v in pieces):
            rev = XSpec(render(pieces[::-1]))
            if render(pieces[::-1]) != text and (spec == rev or not spec != rev):
                raise Violation("spec.neq-order", "specs with reordered pieces compare equal although their text differs")
        for foreign in (text, None, 5, object()):
            if spec == foreign or not (spec != foreign):
                raise Violation("spec.foreign-eq", f"spec compares equal to {foreign!r}")
        special = any(c in SPECIAL for k, v in pieces for c in (k + (v or "")))
        labels = [f"pieces:{min(len(pieces), 4)}"]
        if env:
            labels.append("env")
        if any(v is None for _, v in pieces):
            labels.append("bare")
        if any(v and "=" in v for _, v in pieces):
            labels.append("value-with-=")
        return dict(labels=labels, nontrivial=len(pieces) >= 3 and special, sample=text)


class Dups(Part):
    name = "dups"
    budget = {"quick": 2000, "thorough": 60000}

    def strategy(self, ctx):
        return st.tuples(_pieces(), st.integers(0, 5), st.integers(0, 6), _value(), st.booleans())

    def encode(self, case):
        return list(case)

    def decode(self, j):
        return tuple(j)

    def run(self, case, ctx):
        XSpec = _XSpec()
        pieces, which, where, newval, last_slash_guard = case
        pieces = [list(p) for p in pieces]
        k, v = pieces[which % len(pieces)]
        dup = [k, newval]
        if newval is not None and newval.endswith("/"):
            dup[1] = newval + "z"
        pos = where % (len(pieces) + 1)
        new = pieces[:pos] + [dup] + pieces[pos:]
        # keep the "no piece ending in '/' before a separator" construction rule
        for i, (kk, vv) in enumerate(new[:-1]):
            piece = kk if vv is None else kk + "=" + vv
            if piece.endswith("/"):
                return dict(labels=["skipped-ambiguous"], nontrivial=False)
        text = render(new)
        try:
            ref_parse(text)
            raise tree.HarnessError("reference parser accepted a duplicate")
        except ValueError:
            pass
        kind = ("env" if k.startswith("env:") else "plain") + ":" + ("bare" if v is None else "valued") + "/" + (
            "bare" if dup[1] is None else "valued")
        try:
            spec = XSpec(text)
        except ValueError:
            return dict(labels=["kind:" + kind], nontrivial=True, sample=text)
        except BaseException as e:  # noqa: BLE001
            raise Violation("dups.wrong-exception", exc=e) from None
        raise Violation("dups.accepted", f"{text!r} accepted although key {k!r} is repeated (env={spec.env!r})",
                        site="env" if k.startswith("env:") else "plain")


# ----------------------------------------------------------------------------- group histories


class GroupHistory(Part):
    name = "group"
    budget = {"quick": 64, "thorough": 2000}
    min_per_shard = 4
    POOL = ["a", "gw0", "gw1", "gw2"]

    def strategy(self, ctx):
        op = st.one_of(
            st.tuples(st.just("auto"), st.none()), st.tuples(st.just("auto"), st.none()),
            st.tuples(st.just("explicit"), st.sampled_from(self.POOL)),
            st.tuples(st.just("explicit"), st.sampled_from(self.POOL)),
            st.tuples(st.just("exit"), st.integers(0, 5)),
            st.tuples(st.just("terminate"), st.none()),
        )
        return st.lists(op, min_size=2, max_size=9)

    def encode(self, case):
        return [list(x) for x in case]

    def decode(self, j):
        return [tuple(x) for x in j]

    def run(self, ops, ctx):
        execnet = tree.use()
        group = execnet.Group()
        live = []  # model: list of (id, gateway) in registration order
        autocounter = 0
        collided = False
        pids = []
        try:
            for op, arg in ops:
                if op == "auto":
                    want_id = "gw%d" % autocounter
                    autocounter += 1
                    expect_fail = any(i == want_id for i, _ in live)
                    collided |= expect_fail
                    try:
                        gw = group.makegateway("popen")
                    except ValueError:
                        if not expect_fail:
                            raise Violation("group.auto-id-refused", f"auto id {want_id} refused although free") from None
                        self._invariants(group, live)
                        continue
                    except BaseException as e:  # noqa: BLE001
                        raise Violation("group.makegateway-raises", exc=e) from None
                    if expect_fail:
                        live.append((gw.id, gw))
                        raise Violation("group.duplicate-id", f"auto id {want_id} handed out although a live gateway has it")
                    if gw.id != want_id:
                        raise Violation("group.auto-id-sequence", f"got {gw.id}, expected {want_id}")
                    live.append((gw.id, gw))
                elif op == "explicit":
                    taken = any(i == arg for i, _ in live)
                    collided |= taken
                    try:
                        gw = group.makegateway("popen//id=" + arg)
                    except BaseException as e:  # noqa: BLE001 - any exception type is acceptable for a taken id
                        if not taken:
                            raise Violation("group.explicit-id-refused", exc=e) from None
                        self._invariants(group, live)
                        continue
                    live.append((gw.id, gw))
                    if taken:
                        raise Violation("group.duplicate-id", f"explicit id {arg!r} accepted although a live gateway has it")
                    if gw.id != arg:
                        raise Violation("group.explicit-id", f"asked for {arg!r}, got {gw.id!r}")
                elif op == "exit":
                    if live:
                        i, gw = live.pop(arg % len(live))
                        gw.exit()
                elif op == "terminate":
                    group.terminate(timeout=2.0)
                    live = []
                self._invariants(group, live)
            return dict(labels=sorted({"op:" + o for o, _ in ops}) + (["collision"] if collided else []),
                        nontrivial=collided)
        finally:
            try:
                group.terminate(timeout=1.0)
            finally:
                atexit.unregister(group._cleanup_atexit)

    def _invariants(self, group, live):
        ids = [i for i, _ in live]
        members = list(group)
        if len(set(g.id for g in members)) != len(members):
            raise Violation("group.duplicate-id", f"live ids {[g.id for g in members]}")
        if [g.id for g in members] != ids or len(group) != len(ids):
            raise Violation("group.membership", f"group has {[g.id for g in members]}, model {ids}")
        for idx, (i, gw) in enumerate(live):
            if group[idx] is not members[idx] or members[idx] is not gw:
                raise Violation("group.index-lookup", f"group[{idx}] is not the {idx}th member of iteration")
            if group[i] is not gw:
                raise Violation("group.id-lookup", f"group[{i!r}] is not the gateway with that id")
            if i not in group or gw not in group:
                raise Violation("group.contains", f"{i!r} / its gateway not reported as member")
        for absent in ("nosuch", "gw99"):
            if absent in group:
                raise Violation("group.contains", f"{absent!r} reported as member")


# ----------------------------------------------------------------------------- concurrent id allocation


class _FakeGateway:
    def __init__(self, id):
        self.id = id


def run_ids(case, preempt_at=(), count_lines=False):
    from vlib import detsched as D

    tree.use()
    import execnet.multi as multi
    from execnet.xspec import XSpec

    s = D.Scheduler(case["choices"], preempt_at=preempt_at)
    if preempt_at or count_lines:
        s.enable_line_tracing()
    real_lock = multi.Lock
    multi.Lock = lambda: D.SLock(s)  # a real threading.Lock held by a parked thread would hang the harness
    try:
        group = multi.Group()
    finally:
        multi.Lock = real_lock
    atexit.unregister(group._cleanup_atexit)
    got, errors = [], []
    s.reg_spans = []  # (id, scheduler step at entry, at exit) of every _register call that succeeded

    def worker(i, explicit):
        try:
            spec = XSpec("popen" if explicit is None else "popen//id=" + explicit)
            try:
                group.allocate_id(spec)
            except ValueError:
                got.append((i, None))
                return
            got.append((i, spec.id))
            # what makegateway does next: register the new gateway under that id
            t0 = s.steps
            try:
                group._register(_FakeGateway(spec.id))
                s.reg_spans.append((spec.id, t0, s.steps))
            except AssertionError:
                errors.append(("register-refused-duplicate", spec.id))
        except D.Abort:
            raise
        except BaseException as e:  # noqa: BLE001
            errors.append(("raised", repr(e)))

    for i, ex in enumerate(case["threads"]):
        s.spawn(worker, (i, ex), name=f"alloc{i}", must_finish=True)
    try:
        s.run()
    finally:
        s.shutdown()
    return s, group, got, errors


def judge_ids(case, s, group, got, errors):
    for name, exc in s.unhandled():
        raise Violation("ids.thread-died", f"{name}: {exc!r}", exc=exc)
    auto = [i for (k, i), ex in zip(sorted(got), case["threads"]) if ex is None and i is not None]
    if len(set(auto)) != len(auto):
        raise Violation("ids.duplicate-auto-id", f"concurrent allocate_id handed out {sorted(auto)}")
    live = [g.id for g in group]
    if len(set(live)) != len(live):
        dup = sorted(i for i in set(live) if live.count(i) > 1)[0]
        asked = sum(1 for ex in case["threads"] if ex == dup)
        kind = "explicit-vs-explicit" if asked >= 2 else "explicit-vs-auto" if asked == 1 else "auto-only"
        spans = sorted((a, b) for i, a, b in getattr(s, "reg_spans", ()) if i == dup)
        if any(spans[k][1] < spans[k + 1][0] for k in range(len(spans) - 1)):
            # one registration had completely finished before the next one began: no race inside _register can explain it
            kind += "/registrations-not-overlapping"
        raise Violation("ids.duplicate-live-id", f"group members {live} (threads {case['threads']})", site=kind)
    n_auto = sum(1 for ex in case["threads"] if ex is None)
    explicit = {ex for ex in case["threads"] if ex is not None}
    for k, i in got:
        if i is None and case["threads"][k] is None and not explicit:
            raise Violation("ids.auto-refused", "allocate_id refused an automatic id although nothing collides")
    if errors and not explicit:
        raise Violation("ids." + errors[0][0], repr(errors[:3]))
    expected = {"gw%d" % k for k in range(n_auto)}
    if not explicit and set(auto) != expected:
        raise Violation("ids.auto-sequence", f"{n_auto} concurrent allocations gave {sorted(auto)}")


class Ids(Part):
    """2-4 threads in allocate_id (+ registration) under the deterministic scheduler; every single
    line-level preemption of the scenario is enumerated, plus generated multi-preemption schedules"""

    name = "ids"
    budget = {"quick": 300, "thorough": 10000}
    min_per_shard = 10

    def setup(self, ctx):
        from vlib import detsched as D

        D.preimport()
        D.selftest(20, seed=ctx.seed)

    def strategy(self, ctx):
        thread = st.one_of(st.none(), st.none(), st.none(), st.sampled_from(["gw0", "gw1", "x"]))
        return st.fixed_dictionaries(dict(
            threads=st.lists(thread, min_size=2, max_size=4),
            choices=st.lists(st.integers(0, 3), max_size=30),
            preempt=st.lists(st.integers(0, 999), max_size=3),
        ))

    def run(self, case, ctx):
        from vlib import detsched as D

        single = case.get("single")
        if single is not None:
            s, group, got, errors = run_ids(dict(case, choices=case["choices"] + [single[1]] * 4), preempt_at=(single[0],))
            judge_ids(case, s, group, got, errors)
            return dict(nontrivial=True)
        try:
            s0, group, got, errors = run_ids(case, count_lines=True)
            judge_ids(case, s0, group, got, errors)
            n = s0.lines
            runs, viol = 1, []
            # (a) generated multi-preemption schedule
            if case["preempt"]:
                pre = sorted({1 + (f * max(1, n)) // 1000 for f in case["preempt"]})
                s, group, got, errors = run_ids(case, preempt_at=pre)
                judge_ids(case, s, group, got, errors)
                runs += 1
            # (b) every single preemption
            for line in range(1, n + 1):
                for alt in range(min(3, len(case["threads"]) - 1)):
                    c2 = dict(case, choices=list(case["choices"]) + [alt] * 4)
                    runs += 1
                    try:
                        s, group, got, errors = run_ids(c2, preempt_at=(line,))
                        judge_ids(case, s, group, got, errors)
                    except Violation as v:
                        viol.append((v, dict(case, single=[line, alt])))
        except D.Deadlock as e:
            raise Violation("ids.blocks-forever", str(e)) from None
        explicit = any(t is not None for t in case["threads"])
        return dict(count=runs, nontrivial_count=runs - 1, violations=viol[:3], nontrivial=True,
                    labels=[f"threads:{len(case['threads'])}", "explicit" if explicit else "auto-only"],
                    sample={"threads": case["threads"], "lines": n, "runs": runs})


PARTS = [Spec(), Dups(), GroupHistory(), Ids()]
