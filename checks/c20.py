"""C20 - specs parse faithfully and group ids stay unique."""
from __future__ import annotations

import atexit

from hypothesis import strategies as st

from vlib import tree
from vlib.core import Part, Violation

PROPERTY = "C20"
RULE = (
    "(spec) generated lists of (key, value|bare) pieces over an alphabet with '=', ':', '/', space, unicode; keys "
    "unique, non-empty, without '=', not starting with '_'; no '//' inside a piece and no piece ending in '/' before "
    "a separator (built by construction, not filtered); env: keys; the reserved key 'env' itself is not generated. "
    "Oracle: a 20-line reference parser. (dups) the same plus one repeated key of a generated kind -> ValueError. "
    "(group) generated histories over a real Group of popen gateways: auto ids, explicit ids from a small pool that "
    "collides with live and with future auto ids, exit, terminate; container invariants after every step. "
    "(ids) 2-4 threads in allocate_id/makegateway under the deterministic scheduler (sync-point and line-level "
    "preemption). Non-trivial: >= 3 pieces with at least one special character (spec); a collision attempt (group); "
    ">= 1 context switch inside allocate_id (ids)."
)
ASSUMPTIONS = [
    "the reference parser in this file is the specification of the key1=value1//key2=value2 syntax",
    "group histories use real popen workers of the tree under test",
]

SPECIAL = "=:/ €é-._"
ALPHA = "abcxyz019" + SPECIAL + "PQ_"


def _no_double_slash(s):
    while "//" in s:
        s = s.replace("//", "/")
    return s


def _key():
    body = st.text(st.sampled_from(ALPHA.replace("=", "")), min_size=1, max_size=8).map(_no_double_slash)
    # not starting with '_', not the reserved name 'env'
    plain = body.map(lambda k: ("k" + k) if k[0] == "_" else k).map(lambda k: "envx" if k == "env" else k)
    env = body.map(lambda k: "env:" + k)
    known = st.sampled_from(["popen", "ssh", "socket", "python", "chdir", "nice", "id", "via", "execmodel",
                             "installvia", "dont_write_bytecode", "ssh_config", "vagrant_ssh"])
    return st.one_of(plain, plain, env, known)


def _value():
    return st.one_of(st.none(), st.text(st.sampled_from(ALPHA), max_size=8).map(_no_double_slash))


def _pieces(min_size=1):
    def fix(items):
        seen, out = set(), []
        for k, v in items:
            if k in seen:
                continue
            seen.add(k)
            out.append([k, v])
        # a piece ending in '/' directly before a '//' separator is inherently ambiguous
        for i, (k, v) in enumerate(out[:-1]):
            piece = k if v is None else k + "=" + v
            if piece.endswith("/"):
                if v is None:
                    k2 = k + "z"
                    if k2 in seen:
                        k2 = k + "zz" + str(i)
                    seen.add(k2)
                    out[i][0] = k2
                else:
                    out[i][1] = v + "z"
        return out

    return st.lists(st.tuples(_key(), _value()), min_size=min_size, max_size=6).map(fix)


def render(pieces):
    return "//".join(k if v is None else f"{k}={v}" for k, v in pieces)


def ref_parse(text):
    """the specification: -> (attrs, env); raises ValueError on a repeated key"""
    attrs, env, seen = {}, {}, set()
    for piece in text.split("//"):
        key, sep, value = piece.partition("=")
        val = value if sep else True
        if key in seen:
            raise ValueError(key)
        seen.add(key)
        if key.startswith("env:"):
            env[key[4:]] = val
        else:
            attrs[key] = val
    return attrs, env


def _XSpec():
    tree.use()
    from execnet.xspec import XSpec

    return XSpec


class Spec(Part):
    name = "spec"
    budget = {"quick": 5000, "thorough": 300000}

    def strategy(self, ctx):
        absent = st.lists(st.text(st.sampled_from(ALPHA.replace("=", "")), min_size=1, max_size=6), max_size=3)
        return st.tuples(_pieces(), absent)

    def encode(self, case):
        return [case[0], case[1]]

    def decode(self, j):
        return (j[0], j[1])

    def run(self, case, ctx):
        XSpec = _XSpec()
        pieces, absent = case
        text = render(pieces)
        attrs, env = ref_parse(text)
        # self-check of generator and reference parser (a mismatch is my bug, not a verdict)
        if [k for k, _ in pieces] != [p.partition("=")[0] for p in text.split("//")]:
            raise tree.HarnessError(f"generator produced an ambiguous spec {text!r}")
        try:
            spec = XSpec(text)
        except BaseException as e:  # noqa: BLE001
            raise Violation("spec.parse-raises", exc=e) from None
        for k, v in attrs.items():
            try:
                got = getattr(spec, k)
            except BaseException as e:  # noqa: BLE001
                raise Violation("spec.getattr-raises", exc=e) from None
            if got != v or type(got) is not type(v):
                raise Violation("spec.attr-differs", f"{text!r}: {k!r} -> {got!r}, expected {v!r}")
        if spec.env != env or type(spec.env) is not dict:
            raise Violation("spec.env-differs", f"{text!r}: env {spec.env!r}, expected {env!r}")
        for name in absent:
            if name in attrs or name == "env" or name[0] == "_":
                continue
            try:
                got = getattr(spec, name)
            except BaseException as e:  # noqa: BLE001
                raise Violation("spec.absent-raises", exc=e) from None
            if got is not None:
                raise Violation("spec.absent-not-none", f"{text!r}: absent name {name!r} -> {got!r}")
        if str(spec) != text:
            raise Violation("spec.str-differs", f"str() gives {str(spec)!r} for {text!r}")
        twin = XSpec(text)
        if not (spec == twin) or spec != twin or hash(spec) != hash(twin):
            raise Violation("spec.eq-hash", f"two specs of {text!r} do not compare/hash equal")
        if len({spec, twin}) != 1:
            raise Violation("spec.eq-hash", "set of two equal specs has two members")
        other = XSpec("zzextra//" + text)
        if spec == other or not (spec != other):
            raise Violation("spec.neq", f"{text!r} equals a longer spec")
        if len(pieces) >= 2 and not any((k if v is None else k + "=" + v).endswith("/") for k, v in pieces):
            rev = XSpec(render(pieces[::-1]))
            if render(pieces[::-1]) != text and (spec == rev or not spec != rev):
                raise Violation("spec.neq-order", "specs with reordered pieces compare equal although their text differs")
        for foreign in (text, None, 5, object()):
            if spec == foreign or not (spec != foreign):
                raise Violation("spec.foreign-eq", f"spec compares equal to {foreign!r}")
        special = any(c in SPECIAL for k, v in pieces for c in (k + (v or "")))
        labels = [f"pieces:{min(len(pieces), 4)}"]
        if env:
            labels.append("env")
        if any(v is None for _, v in pieces):
            labels.append("bare")
        if any(v and "=" in v for _, v in pieces):
            labels.append("value-with-=")
        return dict(labels=labels, nontrivial=len(pieces) >= 3 and special, sample=text)


class Dups(Part):
    name = "dups"
    budget = {"quick": 2000, "thorough": 60000}

    def strategy(self, ctx):
        return st.tuples(_pieces(), st.integers(0, 5), st.integers(0, 6), _value(), st.booleans())

    def encode(self, case):
        return list(case)

    def decode(self, j):
        return tuple(j)

    def run(self, case, ctx):
        XSpec = _XSpec()
        pieces, which, where, newval, last_slash_guard = case
        pieces = [list(p) for p in pieces]
        k, v = pieces[which % len(pieces)]
        dup = [k, newval]
        if newval is not None and newval.endswith("/"):
            dup[1] = newval + "z"
        pos = where % (len(pieces) + 1)
        new = pieces[:pos] + [dup] + pieces[pos:]
        # keep the "no piece ending in '/' before a separator" construction rule
        for i, (kk, vv) in enumerate(new[:-1]):
            piece = kk if vv is None else kk + "=" + vv
            if piece.endswith("/"):
                return dict(labels=["skipped-ambiguous"], nontrivial=False)
        text = render(new)
        try:
            ref_parse(text)
            raise tree.HarnessError("reference parser accepted a duplicate")
        except ValueError:
            pass
        kind = ("env" if k.startswith("env:") else "plain") + ":" + ("bare" if v is None else "valued") + "/" + (
            "bare" if dup[1] is None else "valued")
        try:
            spec = XSpec(text)
        except ValueError:
            return dict(labels=["kind:" + kind], nontrivial=True, sample=text)
        except BaseException as e:  # noqa: BLE001
            raise Violation("dups.wrong-exception", exc=e) from None
        raise Violation("dups.accepted", f"{text!r} accepted although key {k!r} is repeated (env={spec.env!r})",
                        site="env" if k.startswith("env:") else "plain")


# ----------------------------------------------------------------------------- group histories


class GroupHistory(Part):
    name = "group"
    budget = {"quick": 64, "thorough": 2000}
    min_per_shard = 4
    POOL = ["a", "gw0", "gw1", "gw2"]

    def strategy(self, ctx):
        op = st.one_of(
            st.tuples(st.just("auto"), st.none()), st.tuples(st.just("auto"), st.none()),
            st.tuples(st.just("explicit"), st.sampled_from(self.POOL)),
            st.tuples(st.just("explicit"), st.sampled_from(self.POOL)),
            st.tuples(st.just("exit"), st.integers(0, 5)),
            st.tuples(st.just("terminate"), st.none()),
        )
        return st.lists(op, min_size=2, max_size=9)

    def encode(self, case):
        return [list(x) for x in case]

    def decode(self, j):
        return [tuple(x) for x in j]

    def run(self, ops, ctx):
        execnet = tree.use()
        group = execnet.Group()
        live = []  # model: list of (id, gateway) in registration order
        autocounter = 0
        collided = False
        pids = []
        try:
            for op, arg in ops:
                if op == "auto":
                    want_id = "gw%d" % autocounter
                    autocounter += 1
                    expect_fail = any(i == want_id for i, _ in live)
                    collided |= expect_fail
                    try:
                        gw = group.makegateway("popen")
                    except ValueError:
                        if not expect_fail:
                            raise Violation("group.auto-id-refused", f"auto id {want_id} refused although free") from None
                        self._invariants(group, live)
                        continue
                    except BaseException as e:  # noqa: BLE001
                        raise Violation("group.makegateway-raises", exc=e) from None
                    if expect_fail:
                        live.append((gw.id, gw))
                        raise Violation("group.duplicate-id", f"auto id {want_id} handed out although a live gateway has it")
                    if gw.id != want_id:
                        raise Violation("group.auto-id-sequence", f"got {gw.id}, expected {want_id}")
                    live.append((gw.id, gw))
                elif op == "explicit":
                    taken = any(i == arg for i, _ in live)
                    collided |= taken
                    try:
                        gw = group.makegateway("popen//id=" + arg)
                    except BaseException as e:  # noqa: BLE001 - any exception type is acceptable for a taken id
                        if not taken:
                            raise Violation("group.explicit-id-refused", exc=e) from None
                        self._invariants(group, live)
                        continue
                    live.append((gw.id, gw))
                    if taken:
                        raise Violation("group.duplicate-id", f"explicit id {arg!r} accepted although a live gateway has it")
                    if gw.id != arg:
                        raise Violation("group.explicit-id", f"asked for {arg!r}, got {gw.id!r}")
                elif op == "exit":
                    if live:
                        i, gw = live.pop(arg % len(live))
                        gw.exit()
                elif op == "terminate":
                    group.terminate(timeout=2.0)
                    live = []
                self._invariants(group, live)
            return dict(labels=sorted({"op:" + o for o, _ in ops}) + (["collision"] if collided else []),
                        nontrivial=collided)
        finally:
            try:
                group.terminate(timeout=1.0)
            finally:
                atexit.unregister(group._cleanup_atexit)

    def _invariants(self, group, live):
        ids = [i for i, _ in live]
        members = list(group)
        if len(set(g.id for g in members)) != len(members):
            raise Violation("group.duplicate-id", f"live ids {[g.id for g in members]}")
        if [g.id for g in members] != ids or len(group) != len(ids):
            raise Violation("group.membership", f"group has {[g.id for g in members]}, model {ids}")
        for idx, (i, gw) in enumerate(live):
            if group[idx] is not members[idx] or members[idx] is not gw:
                raise Violation("group.index-lookup", f"group[{idx}] is not the {idx}th member of iteration")
            if group[i] is not gw:
                raise Violation("group.id-lookup", f"group[{i!r}] is not the gateway with that id")
            if i not in group or gw not in group:
                raise Violation("group.contains", f"{i!r} / its gateway not reported as member")
        for absent in ("nosuch", "gw99"):
            if absent in group:
                raise Violation("group.contains", f"{absent!r} reported as member")


PARTS = [Spec(), Dups(), GroupHistory()]
