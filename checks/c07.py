"""C07 - remote failures surface as RemoteError on that channel only."""
from __future__ import annotations

from hypothesis import strategies as st

from vlib import detsched as D
from vlib import explore, inproc, templates as TP
from vlib.core import Inconclusive, Part, Violation

PROPERTY = "C07"
RULE = (
    "Generated programs: 1-2 failing conversations - a remote_exec body that raises after sending 0-5 items, or a "
    "channel callback (on either side, on the exec channel or on a sub-channel created by either side, channel object "
    "kept or dropped) that raises at a generated item index - plus 0-2 healthy sibling conversations of the C02 kind, "
    "all concurrent on one in-process gateway pair under the deterministic scheduler (bounded-preemption schedules, "
    "line-level preemption; part 'focused' enumerates every single preemption inside the error-propagation functions "
    "x every alternative thread). The peer observes through receive, waitclose-then-receive or both concurrently. "
    "Oracle: all earlier items first, RemoteError exactly once (text carries type, message, 'Traceback'), EOFError "
    "afterwards; the callback is never called again after it raised (except for a requested endmarker); the failing "
    "side's own channel is closed with a RemoteError; every sibling transcript is exact; the gateway survives "
    "(a fresh remote_exec at the end succeeds). Non-trivial = failure position > 0 or a sibling with traffic. Part "
    "'reconf': on a real popen worker, generated sequences of raising bodies / raising remote callbacks / healthy bodies "
    "under each of the four gw.reconfigure() string-coercion settings: items exact, RemoteError carries "
    "'<Type>: <message>' (non-ASCII included), the gateway answers afterwards; non-trivial = non-default setting "
    "with at least one failure."
)
ASSUMPTIONS = [
    "waitclose may raise the RemoteError while items are still queued; they stay receivable (documented)",
    "for a callback on the exec channel the sender is not synchronised with the registration (items queued before "
    "the registration are replayed to the callback), the failure position is the same",
]

FOCUS = {"_local_receive", "_local_close", "_no_longer_opened", "executetask", "close", "receive", "waitclose",
         "_getremoteerror", "_channel_close_error", "_channel_close", "_channel_data", "setcallback", "warn", "__del__"}


def strategy(max_fail=2, max_sib=2, max_pre=40, preempts=3):
    return st.fixed_dictionaries(dict(
        fails=st.lists(TP.c07_params(), min_size=1, max_size=max_fail),
        siblings=st.lists(TP.c02_params(max_items=3, allow_sub=False), max_size=max_sib),
        sparse=st.fixed_dictionaries(dict(
            pre=st.lists(st.tuples(st.one_of(st.integers(0, 30), st.integers(0, 300)), st.integers(0, 5)).map(list), max_size=max_pre),
            blk=st.lists(st.integers(0, 5), max_size=60))),
        preempt=st.lists(st.integers(0, 999), max_size=preempts),
        transport=st.sampled_from(["pipe", "socket"]),
    ))


def run_case(case, preempt_at=(), count_lines=False, sparse=None, focus=None):
    program, expects, sib = TP.build_c07_program(case["fails"], case["siblings"])
    out = inproc.run_program(program, sparse=sparse or case["sparse"], preempt_at=preempt_at, transport=case["transport"],
                             count_lines=count_lines, focus=focus)
    return out, expects, sib


def judge(case, out, expects, sib):
    if out.budget:
        raise Inconclusive("steps")
    if out.deadlock is not None:
        raise Violation("error.blocks-forever", f"blocked: {out.deadlock.blocked}\n" + "\n".join(
            f"--- {k}\n{v}" for k, v in list(out.deadlock.stacks.items())[:4]))
    for name, exc in out.unhandled:
        raise Violation("error.thread-died", f"thread {name} died: {exc!r}", exc=exc)
    res = out.result
    if res is None:
        raise Violation("error.no-result", "program did not finish")
    TP.check_actor_health(res, "error")
    if res["report"] != "ok":
        raise Violation("error.gateway-not-usable", f"a fresh remote_exec after the failures did not work: {res['report']}")
    for ex in expects:
        TP.check_c07(res, ex)
    for ex in sib:
        TP.check_direction(res, ex, "error.sibling")
    if out.sched.escalations:
        raise Violation("error.escalation", f"{out.sched.escalations}")
    late = inproc.late_wakeups(out.sched)
    if late:
        raise Violation("error.lost-wakeup", f"a blocked call was never woken, it only returned by its 60 s timeout: {late}")


def labels_of(case):
    labs = sorted({f"{p['kind']}/{p['chan']}" + ("/dropped" if p["dropped"] else "") for p in case["fails"]})
    labs += sorted({"consumer:" + p["consumer"] for p in case["fails"]})
    labs.append(f"siblings:{len(case['siblings'])}")
    return labs


class Sched(Part):
    name = "sched"
    budget = {"quick": 2000, "thorough": 80000}

    def setup(self, ctx):
        D.preimport()
        D.selftest(30, seed=ctx.seed)

    def strategy(self, ctx):
        return strategy()

    def run(self, case, ctx):
        pre = ()
        if case["preempt"]:
            out0, ex, sib = run_case(case, count_lines=True)
            judge(case, out0, ex, sib)
            pre = sorted({1 + (f * max(1, out0.lines)) // 1000 for f in case["preempt"]})
        out, ex, sib = run_case(case, preempt_at=pre)
        judge(case, out, ex, sib)
        nt = any((p["kind"] == "b_raises" and p["items"]) or (p["kind"] != "b_raises" and p["raise_at"] > 0) for p in case["fails"]) \
            or any(any(s["a2b"]) or any(s["b2a"]) for s in case["siblings"])
        return dict(labels=labels_of(case), nontrivial=nt,
                    sample={"fails": [{k: (v if k != "items" else len(v)) for k, v in p.items()} for p in case["fails"]],
                            "siblings": len(case["siblings"]), "switches": out.sched.switches})


class Focused(Part):
    name = "focused"
    budget = {"quick": 16, "thorough": 250}
    min_per_shard = 1

    def setup(self, ctx):
        D.preimport()

    def strategy(self, ctx):
        return strategy(max_fail=1, max_sib=1, max_pre=0, preempts=0)

    def run(self, case, ctx):
        single = case.get("single")
        if single is not None:
            out, ex, sib = run_case(case, preempt_at=(single[0],), sparse=explore.line_sparse(single[1]), focus=FOCUS)
            judge(case, out, ex, sib)
            return dict(nontrivial=True)
        runs, viol, n, stride = 0, [], 0, 1
        for order in (0, 1):
            out0, ex, sib = run_case(case, count_lines=True, sparse=explore.base_sparse(order), focus=FOCUS)
            judge(case, out0, ex, sib)
            n = out0.lines
            stride = explore.plan_stride(n, ctx.tier, 450)

            def one(line, alt):
                out, ex, sib = run_case(case, preempt_at=(line,), sparse=explore.line_sparse(alt), focus=FOCUS)
                try:
                    judge(case, out, ex, sib)
                except Violation as v:
                    v.sched = out.sched
                    raise
                return out.sched

            r, found, inc = explore.single_preemptions(one, n, stride, ctx.seed, order=order,
                                                       max_runs=None if ctx.tier == "thorough" else 500)
            runs += r
            viol += [(v, dict(case, single=list(la))) for v, la in found]
            if inc:
                ctx.count("inconclusive_runs", inc)
        return dict(count=runs, nontrivial_count=runs, violations=viol[:3],
                    nontrivial=True, labels=labels_of(case) + ["complete" if stride == 1 else "strided"],
                    sample={"focus_lines": n, "runs": runs, "stride": stride})


class Reconf(Part):
    """the same guarantee under every string-coercion configuration of the gateway (gw.reconfigure), on a real popen
    worker: the error text travels as a string item of its own and must not be subject to the user's coercion flags"""

    name = "reconf"
    budget = {"quick": 120, "thorough": 4000}
    max_shards = 4
    min_per_shard = 10

    def setup(self, ctx):
        from vlib import tree

        import os

        self.execnet = tree.use()
        # workers inherit fd 2 and print the traceback of every failing callback there
        devnull = os.open(os.devnull, os.O_WRONLY)
        self.saved_err = os.dup(2)
        os.dup2(devnull, 2)
        os.close(devnull)
        self.group = self.execnet.Group()
        self.gw = self.group.makegateway("popen")
        os.dup2(self.saved_err, 2)
        os.close(self.saved_err)

    def teardown(self, ctx):
        import atexit

        from vlib.core import Watchdog

        try:
            with Watchdog(30):
                self.group.terminate(timeout=2.0)
        except BaseException:  # noqa: BLE001
            pass
        finally:
            atexit.unregister(self.group._cleanup_atexit)

    def strategy(self, ctx):
        text = st.text(st.sampled_from("abc xyz-09\u00e9\u4e2d'\"\\"), min_size=1, max_size=12)
        step = st.one_of(
            st.tuples(st.just("raise"), st.sampled_from(["ValueError", "KeyError", "RuntimeError", "ZeroDivisionError"]), text,
                      st.integers(0, 3)),
            st.tuples(st.just("ok"), st.just(""), st.just(""), st.integers(0, 3)),
            st.tuples(st.just("cb_raise"), st.sampled_from(["ValueError", "TypeError"]), text, st.integers(0, 2)),
        )
        return st.fixed_dictionaries(dict(conf=st.tuples(st.booleans(), st.booleans()).map(list),
                                          steps=st.lists(step.map(list), min_size=1, max_size=4)))

    def run(self, case, ctx):
        from vlib.core import Watchdog

        gw = self.gw
        if not gw.hasreceiver():
            self._renew()
            gw = self.gw
        RemoteError = self.execnet.RemoteError
        with Watchdog(120) as wd:
            try:
                gw.reconfigure(py2str_as_py3str=case["conf"][0], py3str_as_py2str=case["conf"][1])
                for i, (kind, exc, text, n) in enumerate(case["steps"]):
                    where = f"conf {case['conf']} step {i} ({kind} {exc})"
                    if kind == "cb_raise":
                        # the failure happens in a callback on the worker side; it comes back on the exec channel
                        src = ("def cb(x):\n    raise %s(%r)\nsub = channel.receive()\nsub.setcallback(cb)\n"
                               "channel.send(0)\nchannel.receive()\n" % (exc, text))
                        ch = gw.remote_exec(src)
                        sub = gw.newchannel()
                        ch.send(sub)
                        ch.receive(30)
                        sub.send(n)
                        try:
                            sub.waitclose(30)
                            got_err = None
                        except RemoteError as e:
                            got_err = str(e)
                        ch.send(None)
                        ch.waitclose(30)
                        got = []
                    else:
                        body = "".join("channel.send(%d)\n" % (k * 7) for k in range(n))
                        if kind == "raise":
                            body += "raise %s(%r)\n" % (exc, text)
                        ch = gw.remote_exec(body)
                        got, got_err = [], None
                        while True:
                            try:
                                got.append(ch.receive(30))
                            except EOFError:
                                break
                            except RemoteError as e:
                                got_err = str(e)
                                break
                        if got != [k * 7 for k in range(n)]:
                            raise Violation("reconf.items", f"{where}: items {got}")
                    if kind == "ok":
                        if got_err is not None:
                            raise Violation("reconf.spurious-error", f"{where}: {got_err[-200:]}")
                    else:
                        if got_err is None:
                            raise Violation("reconf.error-lost", f"{where}: the channel ended without a RemoteError")
                        import builtins

                        if f"{exc}: {getattr(builtins, exc)(text)}" not in got_err:
                            raise Violation("reconf.error-text", f"{where}: RemoteError text lacks the exception: {got_err[-200:]!r}")
                # the gateway survives
                if gw.remote_exec("channel.send(41 + 1)").receive(30) != 42:
                    raise Violation("reconf.gateway-broken", f"conf {case['conf']}: the follow-up remote_exec gave a wrong answer")
            except Violation:
                self._renew()
                raise
            except (EOFError, OSError, self.execnet.TimeoutError) as e:
                self._renew()
                if wd.fired:
                    raise Violation("reconf.hang", f"conf {case['conf']}: no answer within 120 s") from None
                raise Violation("reconf.gateway-died", f"conf {case['conf']} steps {case['steps']}: {e!r}", exc=e) from None
        kinds = sorted({s_[0] for s_ in case["steps"]})
        return dict(labels=[f"conf:{case['conf'][0]:d}{case['conf'][1]:d}"] + kinds,
                    nontrivial=case["conf"] != [True, False] and any(k != "ok" for k in kinds))

    def _renew(self):
        import os

        try:
            self.gw.exit()
        except Exception:  # noqa: BLE001
            pass
        devnull = os.open(os.devnull, os.O_WRONLY)
        saved = os.dup(2)
        os.dup2(devnull, 2)
        try:
            self.gw = self.group.makegateway("popen")
        finally:
            os.dup2(saved, 2)
            os.close(saved)
            os.close(devnull)


PARTS = [Sched(), Focused(), Reconf()]
