"""C07 - remote failures surface as RemoteError on that channel only."""
from __future__ import annotations

from hypothesis import strategies as st

from vlib import detsched as D
from vlib import explore, inproc, templates as TP
from vlib.core import Inconclusive, Part, Violation

PROPERTY = "C07"
RULE = (
    "Generated programs: 1-2 failing conversations - a remote_exec body that raises after sending 0-5 items, or a "
    "channel callback (on either side, on the exec channel or on a sub-channel created by either side, channel object "
    "kept or dropped) that raises at a generated item index - plus 0-2 healthy sibling conversations of the C02 kind, "
    "all concurrent on one in-process gateway pair under the deterministic scheduler (bounded-preemption schedules, "
    "line-level preemption; part 'focused' enumerates every single preemption inside the error-propagation functions "
    "x every alternative thread). The peer observes through receive, waitclose-then-receive or both concurrently. "
    "Oracle: all earlier items first, RemoteError exactly once (text carries type, message, 'Traceback'), EOFError "
    "afterwards; the callback is never called again after it raised (except for a requested endmarker); the failing "
    "side's own channel is closed with a RemoteError; every sibling transcript is exact; the gateway survives "
    "(a fresh remote_exec at the end succeeds). Non-trivial = failure position > 0 or a sibling with traffic."
)
ASSUMPTIONS = [
    "waitclose may raise the RemoteError while items are still queued; they stay receivable (documented)",
    "for a callback on the exec channel the sender is not synchronised with the registration (items queued before "
    "the registration are replayed to the callback), the failure position is the same",
]

FOCUS = {"_local_receive", "_local_close", "_no_longer_opened", "executetask", "close", "receive", "waitclose",
         "_getremoteerror", "_channel_close_error", "_channel_close", "_channel_data", "setcallback", "warn", "__del__"}


def strategy(max_fail=2, max_sib=2, max_pre=40, preempts=3):
    return st.fixed_dictionaries(dict(
        fails=st.lists(TP.c07_params(), min_size=1, max_size=max_fail),
        siblings=st.lists(TP.c02_params(max_items=3, allow_sub=False), max_size=max_sib),
        sparse=st.fixed_dictionaries(dict(
            pre=st.lists(st.tuples(st.one_of(st.integers(0, 30), st.integers(0, 300)), st.integers(0, 5)).map(list), max_size=max_pre),
            blk=st.lists(st.integers(0, 5), max_size=60))),
        preempt=st.lists(st.integers(0, 999), max_size=preempts),
        transport=st.sampled_from(["pipe", "socket"]),
    ))


def run_case(case, preempt_at=(), count_lines=False, sparse=None, focus=None):
    program, expects, sib = TP.build_c07_program(case["fails"], case["siblings"])
    out = inproc.run_program(program, sparse=sparse or case["sparse"], preempt_at=preempt_at, transport=case["transport"],
                             count_lines=count_lines, focus=focus)
    return out, expects, sib


def judge(case, out, expects, sib):
    if out.budget:
        raise Inconclusive("steps")
    if out.deadlock is not None:
        raise Violation("error.blocks-forever", f"blocked: {out.deadlock.blocked}\n" + "\n".join(
            f"--- {k}\n{v}" for k, v in list(out.deadlock.stacks.items())[:4]))
    for name, exc in out.unhandled:
        raise Violation("error.thread-died", f"thread {name} died: {exc!r}", exc=exc)
    res = out.result
    if res is None:
        raise Violation("error.no-result", "program did not finish")
    TP.check_actor_health(res, "error")
    if res["report"] != "ok":
        raise Violation("error.gateway-not-usable", f"a fresh remote_exec after the failures did not work: {res['report']}")
    for ex in expects:
        TP.check_c07(res, ex)
    for ex in sib:
        TP.check_direction(res, ex, "error.sibling")
    if out.sched.escalations:
        raise Violation("error.escalation", f"{out.sched.escalations}")
    late = inproc.late_wakeups(out.sched)
    if late:
        raise Violation("error.lost-wakeup", f"a blocked call was never woken, it only returned by its 60 s timeout: {late}")


def labels_of(case):
    labs = sorted({f"{p['kind']}/{p['chan']}" + ("/dropped" if p["dropped"] else "") for p in case["fails"]})
    labs += sorted({"consumer:" + p["consumer"] for p in case["fails"]})
    labs.append(f"siblings:{len(case['siblings'])}")
    return labs


class Sched(Part):
    name = "sched"
    budget = {"quick": 2000, "thorough": 80000}

    def setup(self, ctx):
        D.preimport()
        D.selftest(30, seed=ctx.seed)

    def strategy(self, ctx):
        return strategy()

    def run(self, case, ctx):
        pre = ()
        if case["preempt"]:
            out0, ex, sib = run_case(case, count_lines=True)
            judge(case, out0, ex, sib)
            pre = sorted({1 + (f * max(1, out0.lines)) // 1000 for f in case["preempt"]})
        out, ex, sib = run_case(case, preempt_at=pre)
        judge(case, out, ex, sib)
        nt = any((p["kind"] == "b_raises" and p["items"]) or (p["kind"] != "b_raises" and p["raise_at"] > 0) for p in case["fails"]) \
            or any(any(s["a2b"]) or any(s["b2a"]) for s in case["siblings"])
        return dict(labels=labels_of(case), nontrivial=nt,
                    sample={"fails": [{k: (v if k != "items" else len(v)) for k, v in p.items()} for p in case["fails"]],
                            "siblings": len(case["siblings"]), "switches": out.sched.switches})


class Focused(Part):
    name = "focused"
    budget = {"quick": 16, "thorough": 250}
    min_per_shard = 1

    def setup(self, ctx):
        D.preimport()

    def strategy(self, ctx):
        return strategy(max_fail=1, max_sib=1, max_pre=0, preempts=0)

    def run(self, case, ctx):
        single = case.get("single")
        if single is not None:
            out, ex, sib = run_case(case, preempt_at=(single[0],), sparse=explore.line_sparse(single[1]), focus=FOCUS)
            judge(case, out, ex, sib)
            return dict(nontrivial=True)
        runs, viol, n, stride = 0, [], 0, 1
        for order in (0, 1):
            out0, ex, sib = run_case(case, count_lines=True, sparse=explore.base_sparse(order), focus=FOCUS)
            judge(case, out0, ex, sib)
            n = out0.lines
            stride = explore.plan_stride(n, ctx.tier, 450)

            def one(line, alt):
                out, ex, sib = run_case(case, preempt_at=(line,), sparse=explore.line_sparse(alt), focus=FOCUS)
                try:
                    judge(case, out, ex, sib)
                except Violation as v:
                    v.sched = out.sched
                    raise
                return out.sched

            r, found, inc = explore.single_preemptions(one, n, stride, ctx.seed, order=order,
                                                       max_runs=None if ctx.tier == "thorough" else 500)
            runs += r
            viol += [(v, dict(case, single=list(la))) for v, la in found]
            if inc:
                ctx.count("inconclusive_runs", inc)
        return dict(count=runs, nontrivial_count=runs, violations=viol[:3],
                    nontrivial=True, labels=labels_of(case) + ["complete" if stride == 1 else "strided"],
                    sample={"focus_lines": n, "runs": runs, "stride": stride})


PARTS = [Sched(), Focused()]
