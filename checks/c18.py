"""C18 - channel ids never collide and channels travel over channels intact; tables do not grow."""
from __future__ import annotations

import atexit
import gc
import itertools

from hypothesis import strategies as st

from vlib import convo
from vlib import detsched as D
from vlib import explore, inproc, templates as TP, tree
from vlib.core import Inconclusive, Part, Violation, Watchdog

PROPERTY = "C18"
RULE = (
    "(sched) 2-4 concurrent conversations on one in-process gateway pair; in every round one side creates a channel "
    "(A: newchannel / remote_exec from several actor threads, B: newchannel from the exec threads plus extra threads), "
    "passes it over the exec channel bare or nested in a list / tuple / dict, both sides exchange a token over it in "
    "both directions, then it is closed or dropped by either side; deterministic scheduler with generated schedules and "
    "line-level preemption; 'focused' enumerates every single preemption inside id allocation, channel (de)serialisation "
    "and the forget-on-close functions. Afterwards both sides' channel and callback tables must be empty. "
    "(history) on a real popen worker N and then 2N open/transfer/close/drop cycles (N = 100 quick, 1500 thorough): "
    "remote_status().numchannels and the local tables after N and after 2N cycles must be equal and below a constant. "
    "Oracle: ids distinct per side and disjoint between the sides (parity), every token arrives on its own channel, a "
    "transferred channel keeps its id and carries traffic both ways. Non-trivial = at least 2 conversations (ids "
    "allocated concurrently) or a history of at least 100 cycles."
)
ASSUMPTIONS = [
    "table sizes are read after the program finished, after gc.collect() and (real part) a settle loop of at most 5 s: "
    "forgetting a channel after a close frame is asynchronous, growth is the claim, not instantaneous emptiness",
]

FOCUS = {"new", "newchannel", "remote_exec", "_local_close", "__del__", "load_channel", "save_Channel", "_no_longer_opened",
         "close", "_channel_close", "_channel_last_message", "_channel_exec", "_local_receive", "__init__"}


def strategy(max_convs=4, max_rounds=4, max_pre=40, preempts=3):
    return st.fixed_dictionaries(dict(
        convs=st.lists(TP.c18_params(max_rounds), min_size=1, max_size=max_convs),
        sparse=st.fixed_dictionaries(dict(
            pre=st.lists(st.tuples(st.one_of(st.integers(0, 30), st.integers(0, 300)), st.integers(0, 5)).map(list), max_size=max_pre),
            blk=st.lists(st.integers(0, 5), max_size=60))),
        preempt=st.lists(st.integers(0, 999), max_size=preempts),
        transport=st.sampled_from(["pipe", "socket"]),
    ))


def build(case):
    convs, expects = [], []
    for k, rounds in enumerate(case["convs"]):
        a_ops, ex = TP.c18_conversation(k, rounds)
        convs.append({"id": k, "a": a_ops})
        expects += ex
    return {"convs": convs}, expects


def run_case(case, preempt_at=(), count_lines=False, sparse=None, focus=None):
    program, expects = build(case)
    tables = {}

    def before_exit(gw, out):
        # let every thread run as far as it can (virtual time only advances at quiescence): a thread that is still
        # inside its close() is asynchronous clean-up in progress, not growth
        gw.execmodel.sleep(1.0)
        gc.collect()
        gw.execmodel.sleep(1.0)
        fa, fb = gw._channelfactory, out.pair.worker._channelfactory
        tables.update(a_channels=len(fa._channels), a_callbacks=len(fa._callbacks), b_channels=len(fb._channels),
                      b_callbacks=len(fb._callbacks))

    out = inproc.run_program(program, sparse=sparse or case["sparse"], preempt_at=preempt_at, transport=case["transport"],
                             count_lines=count_lines, focus=focus, before_exit=before_exit)
    out.tables = tables
    return out, expects


def judge(case, out, expects):
    if out.budget:
        raise Inconclusive("steps")
    if out.deadlock is not None:
        raise Violation("ids.blocks-forever", f"blocked: {out.deadlock.blocked}\n" + "\n".join(
            f"--- {k}\n{v}" for k, v in list(out.deadlock.stacks.items())[:4]))
    for name, exc in out.unhandled:
        raise Violation("ids.thread-died", f"thread {name} died: {exc!r}", exc=exc)
    res = out.result
    if res is None:
        raise Violation("ids.no-result", "program did not finish")
    TP.check_actor_health(res, "ids")
    if res["report"] != "ok":
        raise Violation("ids.report-failed", res["report"])
    TP.check_c18(res, expects)
    t = out.tables
    if t and any(t.values()):
        raise Violation("ids.tables-not-empty", f"after every conversation finished the channel/callback tables hold {t}")
    late = inproc.late_wakeups(out.sched)
    if late:
        raise Violation("ids.lost-wakeup", f"a blocked call was never woken, it only returned by its 60 s timeout: {late}")


class Sched(Part):
    name = "sched"
    budget = {"quick": 1000, "thorough": 80000}

    def setup(self, ctx):
        D.preimport()
        D.selftest(30, seed=ctx.seed)

    def strategy(self, ctx):
        return strategy()

    def run(self, case, ctx):
        pre = ()
        if case["preempt"]:
            out0, ex = run_case(case, count_lines=True)
            judge(case, out0, ex)
            pre = sorted({1 + (f * max(1, out0.lines)) // 1000 for f in case["preempt"]})
        out, ex = run_case(case, preempt_at=pre)
        judge(case, out, ex)
        labels = [f"convs:{len(case['convs'])}"] + sorted({"end:" + r["end"] for c in case["convs"] for r in c}) + sorted(
            {"wrap:" + r["wrap"] for c in case["convs"] for r in c} | {"creator:" + r["creator"] for c in case["convs"] for r in c})
        if any(r["extra_b_threads"] for c in case["convs"] for r in c):
            labels.append("extra-b-threads")
        return dict(labels=labels, nontrivial=len(case["convs"]) >= 2,
                    sample={"convs": case["convs"], "switches": out.sched.switches})


class Focused(Part):
    name = "focused"
    budget = {"quick": 8, "thorough": 60}
    min_per_shard = 1

    def setup(self, ctx):
        D.preimport()

    def strategy(self, ctx):
        return strategy(max_convs=2, max_rounds=2, max_pre=0, preempts=0).filter(lambda c: len(c["convs"]) == 2)

    def run(self, case, ctx):
        single = case.get("single")
        if single is not None:
            out, ex = run_case(case, preempt_at=(single[0],), sparse=explore.line_sparse(single[1]), focus=FOCUS)
            judge(case, out, ex)
            return dict(nontrivial=True)
        runs, viol, n = 0, [], 0
        for order in (0, 1):
            out0, ex = run_case(case, count_lines=True, sparse=explore.base_sparse(order), focus=FOCUS)
            judge(case, out0, ex)
            n = out0.lines

            def one(line, alt):
                out, ex = run_case(case, preempt_at=(line,), sparse=explore.line_sparse(alt), focus=FOCUS)
                try:
                    judge(case, out, ex)
                except Violation as v:
                    v.sched = out.sched
                    raise
                return out.sched

            r, found, inc = explore.single_preemptions(one, n, explore.plan_stride(n, ctx.tier, 450), ctx.seed, order=order,
                                                       max_runs=None if ctx.tier == "thorough" else 500)
            runs += r
            viol += [(v, dict(case, single=list(la))) for v, la in found]
            if inc:
                ctx.count("inconclusive_runs", inc)
        return dict(count=runs, nontrivial_count=runs, violations=viol[:3], nontrivial=True,
                    labels=["two-conversations"], sample={"focus_lines": n, "runs": runs})


_pid = itertools.count(1)


class History(Part):
    """long histories on a real popen worker: table sizes after N and after 2N cycles"""

    name = "history"
    budget = {"quick": 8, "thorough": 120}
    max_shards = 8
    min_per_shard = 1

    def setup(self, ctx):
        execnet = tree.use()
        self.group = execnet.Group()

    def teardown(self, ctx):
        try:
            with Watchdog(30):
                self.group.terminate(timeout=2.0)
        except BaseException:  # noqa: BLE001
            pass
        finally:
            atexit.unregister(self.group._cleanup_atexit)

    def strategy(self, ctx):
        return st.fixed_dictionaries(dict(
            pattern=st.lists(TP.c18_params(max_rounds=3), min_size=2, max_size=6),
            model=st.sampled_from(["thread", "thread", "main_thread_only"]),
            callback_every=st.integers(0, 3),
        ))

    def run(self, case, ctx):
        import time

        n_cycles = 100 if ctx.tier == "quick" else 1500
        gw = self.group.makegateway(f"popen//execmodel={case['model']}")
        try:
            def burst(k0, n):
                """n cycles (each cycle = one conversation with its rounds), 10 conversations per program"""
                done = 0
                while done < n:
                    convs, expects = [], []
                    for j in range(min(10, n - done)):
                        rounds = case["pattern"][(k0 + done + j) % len(case["pattern"])]
                        a_ops, ex = TP.c18_conversation(k0 + done + j, rounds)
                        if case["callback_every"] and (done + j) % (case["callback_every"] + 1) == 0:
                            # a conversation whose exec channel gets a callback: the callback table is exercised too
                            a_ops = a_ops[:-1] + [["setcallback", "main", f"a:{k0 + done + j}:cb", True, None, "cbd"], ["wait", "cbd"]]
                        convs.append({"id": k0 + done + j, "a": a_ops})
                        expects += ex
                    with Watchdog(150) as wd:
                        res = convo.run_a(gw, f"c18-{ctx.shard}-{next(_pid)}", {"convs": convs, "sequential": True},
                                          inproc.CONVO_SRC)
                    if wd.fired:
                        raise Violation("history.hang", "a burst of 10 conversations did not finish within 150 s")
                    TP.check_actor_health(res, "history")
                    if res["report"] != "ok":
                        raise Violation("history.report-failed", res["report"])
                    TP.check_c18(res, expects, "history")
                    done += len(convs)

            def tables():
                gc.collect()
                t_end = time.time() + 5
                while True:
                    f = gw._channelfactory
                    snap = (gw.remote_status().numchannels, len(f._channels), len(f._callbacks))
                    if snap == (0, 0, 0) or time.time() > t_end:
                        return snap
                    time.sleep(0.05)
                    gc.collect()

            burst(0, n_cycles)
            t1 = tables()
            burst(n_cycles, n_cycles)
            t2 = tables()
            if t2 != t1 or max(t2) > 4:
                raise Violation("history.tables-grow", f"(remote numchannels, local channels, local callbacks) after {n_cycles} "
                                f"cycles: {t1}, after {2 * n_cycles} cycles: {t2}")
            return dict(labels=[case["model"], f"cycles:{2 * n_cycles}"], nontrivial=True,
                        sample={"cycles": 2 * n_cycles, "tables_after_N": t1, "tables_after_2N": t2, "model": case["model"]})
        finally:
            try:
                gw.exit()
            except Exception:
                pass


PARTS = [Sched(), Focused(), History()]
