"""C11 - workers never outlive their initiator."""
from __future__ import annotations

import json
import os
import signal
import subprocess
import sys
import time

from hypothesis import strategies as st

from vlib import tree
from vlib.core import Part, Violation, alive, descendants, kill_leftovers

PROPERTY = "C11"
RULE = (
    "Generated initiator processes (separate Python processes in their own session) create 1-3 workers (popen, "
    "popen//python=, popen//via; thread / main_thread_only / gevent) and give each a generated activity (idle, blocked "
    "in receive, busy loop, sleep, KeyboardInterrupt swallowed, SIGINT ignored, extra daemon threads, bulk transfer "
    "in either direction; gevent workers only cooperative ones); the initiator then ends by returning from main "
    "(with and without the atexit handler), os._exit, gateway exit() while it stays alive, or SIGKILL at a generated "
    "moment - including during bootstrap, where the workers are found by a SIGSTOP census of its descendants. "
    "Oracle: every worker pid is gone (or a zombie) within 25 s. Non-trivial = an activity other than idle, or a kill "
    "during bootstrap / bulk transfer."
)
ASSUMPTIONS = [
    "bound 25 s (40 s when a via worker is involved: its clock starts when its forwarder has gone): the code's escalation "
    "ladder is 5 s (wait) + SIGINT + 10 s (wait) + os._exit; observed maximum 15.0 s direct, about 20 s through a forwarder",
    "gevent workers with a blocked hub and workers with extra NON-daemon threads are outside the property's domain "
    "(cooperative activities only / 'extra daemon threads'); they are not generated",
    "the OS schedule inside the worker is not owned; cases run at most 24 at a time",
]

THREAD_ACTS = ["idle", "receive", "busy", "sleep", "swallow", "sigint_ignored", "daemon_threads", "bulk_to_worker",
               "bulk_from_worker"]
GEVENT_ACTS = ["idle", "receive", "gsleep"]
BOUND = 25.0


def workers():
    def fix(w):
        w = dict(w)
        if w["model"] == "gevent":
            if w["activity"] not in GEVENT_ACTS:
                w["activity"] = "gsleep"
        elif w["activity"] == "gsleep":
            w["activity"] = "sleep"
        return w

    return st.fixed_dictionaries(dict(
        topology=st.sampled_from(["popen", "popen", "python", "via"]),
        model=st.sampled_from(["thread", "thread", "main_thread_only", "gevent"]),
        activity=st.sampled_from(THREAD_ACTS + ["gsleep"]),
    )).map(fix)


def strategy():
    return st.fixed_dictionaries(dict(
        workers=st.lists(workers(), min_size=1, max_size=3),
        end=st.sampled_from(["killed", "killed", "killed_bootstrap", "return", "return_atexit", "_exit", "exit_gateways"]),
        delay_ms=st.one_of(st.integers(0, 150), st.integers(0, 600)),
    ))


class Orphans(Part):
    name = "orphans"
    budget = {"quick": 48, "thorough": 1500}
    max_shards = 12
    min_per_shard = 2

    def strategy(self, ctx):
        return strategy()

    def run(self, case, ctx):
        kill_leftovers()
        busy = 0
        ws = []
        for w in case["workers"]:
            w = dict(w)
            if w["activity"] == "busy":
                busy += 1
                if busy > 1:
                    w["activity"] = "sleep"
            ws.append(w)
        sc = dict(workers=ws, end=case["end"] if case["end"] != "killed_bootstrap" else "killed", src=tree.SRC,
                  linger=0.3)
        p = subprocess.Popen([sys.executable, os.path.join(tree.VERIF, "vlib", "c11_driver.py"), json.dumps(sc)],
                             stdout=subprocess.PIPE, stderr=subprocess.DEVNULL, env=tree.child_env(), start_new_session=True)
        pids = []
        try:
            if case["end"] == "killed_bootstrap":
                time.sleep(case["delay_ms"] / 1000.0)
                try:
                    os.kill(p.pid, signal.SIGSTOP)
                    pids = [x for x in descendants(p.pid)]
                    os.kill(p.pid, signal.SIGKILL)
                except OSError:
                    pass
                t0 = time.time()
            else:
                import select

                r, _, _ = select.select([p.stdout], [], [], 120)
                line = p.stdout.readline() if r else b""
                if not line:
                    # the initiator itself did not get its workers up within 120 s: nothing to conclude about orphans
                    ctx.count("driver_did_not_start")
                    from vlib.core import Inconclusive

                    raise Inconclusive(f"driver produced no pid line (rc={p.poll()}) for {sc}")
                pids = json.loads(line)["pids"]
                if case["end"] == "killed":
                    time.sleep(case["delay_ms"] / 1000.0)
                    os.kill(p.pid, signal.SIGKILL)
                    t0 = time.time()
                elif case["end"] == "exit_gateways":
                    t0 = time.time() + 0.3  # the driver lingers 0.3 s before it calls exit()
                else:
                    try:
                        p.wait(90)
                    except subprocess.TimeoutExpired:
                        ctx.count("driver_did_not_end")
                        from vlib.core import Inconclusive

                        raise Inconclusive("the initiator did not end by itself within 90 s") from None
                    t0 = time.time()
            # every worker must disappear by itself
            # a proxied (via) worker only notices once its forwarder has gone through its own ladder (up to 5 s for a
            # forwarder whose proxy loop has to be interrupted): its 15 s start then
            bound = BOUND + (15.0 if any(w["topology"] == "via" for w in ws) else 0.0)
            left = list(pids)
            while left and time.time() - t0 < bound:
                left = [x for x in left if alive(x)]
                if left:
                    time.sleep(0.1)
            took = time.time() - t0
            if left:
                names = [f"{w['topology']}/{w['model']}/{w['activity']}" for w in ws]
                raise Violation("orphans.worker-outlives-initiator",
                                f"{len(left)} of {len(pids)} worker processes still alive {bound:.0f} s after the initiator "
                                f"ended by {case['end']!r}; workers {names}",
                                site=case["end"])
            acts = sorted({"activity:" + w["activity"] for w in ws})
            nontrivial = any(w["activity"] != "idle" for w in ws) or case["end"] == "killed_bootstrap"
            return dict(labels=acts + ["end:" + case["end"]] + sorted({f"{w['topology']}/{w['model']}" for w in ws})
                        + ["gone-in:%ds" % (0 if took < 1 else 5 if took < 6 else 15 if took < 16 else 25)],
                        nontrivial=nontrivial, sample={"case": case, "workers_found": len(pids), "gone_after_s": round(took, 1)})
        finally:
            for x in pids + [p.pid]:
                try:
                    os.kill(x, signal.SIGKILL)
                except OSError:
                    pass
            try:
                os.killpg(p.pid, signal.SIGKILL)
            except OSError:
                pass
            try:
                p.wait(5)
            except Exception:
                pass
            p.stdout.close()


# ----------------------------------------------------------------------------- the worker's side under the scheduler

BODIES = {
    "recv": "channel.receive()",
    "sleep": "channel.gateway.execmodel.sleep(100000)",
    "swallow": "em = channel.gateway.execmodel\nwhile True:\n    try:\n        em.sleep(100000)\n    except KeyboardInterrupt:\n        pass",
    "newchannel_loop": "gw = channel.gateway\nwhile True:\n    c = gw.newchannel()\n    del c\n    gw.execmodel.sleep(0.002)",
    "send_loop": "em = channel.gateway.execmodel\nwhile True:\n    channel.send(1)\n    em.sleep(0.01)",
    # a callback that never returns, entered through setcallback()'s replay of already queued items; the body waits
    # until both items are queued, so the receiver thread is idle (not waiting for the receive lock) when the
    # initiator vanishes - a callback that blocks while messages are still arriving stalls the receiver thread by
    # design ("the callback executes in the receiver thread") and is outside this property's domain
    "slow_callback": "em = channel.gateway.execmodel\nwhile channel._items.qsize() < 2:\n    em.sleep(0.001)\nev = em.Event()\nchannel.setcallback(lambda item: ev.wait())\nev.wait()",
    "callback_then_recv": "c2 = channel.gateway.newchannel()\nchannel.setcallback(lambda item: None)\nc2.receive()",
}
INPROC_FOCUS = {"_finished_receiving", "_thread_receiver", "_terminate_execution", "new", "newchannel", "setcallback",
                "_local_close", "_no_longer_opened", "trigger_shutdown", "waitall", "integrate_as_primary_thread",
                "executetask", "serve", "join", "_perform_spawn"}


def run_inproc(case, sparse, preempt_at=(), count_lines=False, focus=None, count_from_cut=False):
    from vlib import detsched as D
    from vlib import wires

    s = D.Scheduler(sparse=sparse, preempt_at=preempt_at)
    if preempt_at or count_lines:
        s.enable_line_tracing(focus or INPROC_FOCUS)
    D.install_os_proxy(s)
    if count_from_cut:
        # lines are numbered from the (virtual) instant at which the initiator vanishes - including what other threads
        # whose timers expire at that same instant do before the cut itself
        s.counting = False
        s.count_from = case["settle"]
    pair = wires.InprocPair(s, backend_b=case["model"], transport=case["transport"])
    obs = {}

    def user():
        gw = pair.make_gateway(wires.FakeGroup())
        chans = []
        bodies = case["bodies"] if case["model"] == "thread" else case["bodies"][:1]
        # a never-returning callback holds the receive lock: it is submitted last (and once), no message may follow it
        if "slow_callback" in bodies:
            bodies = [b for b in bodies if b != "slow_callback"] + ["slow_callback"]
        for b in bodies:
            ch = gw.remote_exec(BODIES[b])
            if b == "slow_callback":
                ch.send("queued-1")
                ch.send("queued-2")
            chans.append(ch)
        # let the bodies start and settle (virtual time), then the initiator vanishes
        pair.em_a.sleep(case["settle"])
        obs["cut_at"] = s.now
        if case.get("torn"):
            # the initiator died in the middle of writing a message: the worker finds a truncated frame, then EOF
            from vlib import refcodec as R

            frame = R.ref_frame(4, 1, R.ref_dumps("x" * 30, versioned=False))
            pair.ab.buf += frame[:min(case["torn"], len(frame) - 1)]
        pair.ab.wclosed = True   # the worker reads EOF
        pair.ba.rclosed = True   # the worker's writes hit a broken pipe
        done = s.wait_until(lambda: pair.worker_thread.state == D.FINISHED or any(e[0] == "_exit" for e in s.escalations),
                            40.0, "worker-exit")
        obs["done"] = done
        obs["at"] = s.now
        obs["how"] = "serve-returned" if pair.worker_thread.state == D.FINISHED else ("_exit" if done else None)

    pair.start_worker()
    s.spawn(user, name="user", must_finish=True)
    try:
        s.run()
    finally:
        s.shutdown()
    return s, obs


def judge_inproc(case, s, obs):
    from vlib import detsched as D

    if not obs.get("done"):
        died = [(n, repr(e)) for n, e in s.unhandled()]
        raise Violation("inproc.worker-survives", f"model {case['model']}, bodies {case['bodies']}: 40 virtual seconds after the "
                        f"initiator vanished the worker's serve() has not returned and os._exit was not called "
                        f"(escalations {s.escalations}; threads that died: {died[:3]})")
    took = obs["at"] - obs["cut_at"]
    if took > 16.0:
        raise Violation("inproc.worker-slow", f"worker needed {took:.1f} virtual seconds to go away ({obs['how']})")
    return took


class Inproc(Part):
    """the worker as the survivor: real WorkerGateway in-process under the scheduler, the initiator vanishes;
    generated schedules plus every single preemption inside the shutdown path"""

    name = "inproc"
    budget = {"quick": 200, "thorough": 8000}

    def setup(self, ctx):
        from vlib import detsched as D

        D.preimport()
        D.selftest(30, seed=ctx.seed)

    def strategy(self, ctx):
        return st.fixed_dictionaries(dict(
            model=st.sampled_from(["thread", "thread", "main_thread_only"]),
            bodies=st.lists(st.sampled_from(sorted(BODIES)), min_size=1, max_size=3),
            settle=st.sampled_from([0.0, 0.004, 0.005, 0.5]),
            transport=st.sampled_from(["pipe", "socket"]),
            sparse=st.fixed_dictionaries(dict(
                pre=st.lists(st.tuples(st.one_of(st.integers(0, 30), st.integers(0, 300)), st.integers(0, 5)).map(list), max_size=30),
                blk=st.lists(st.integers(0, 5), max_size=40))),
            exhaustive=st.booleans(),
            torn=st.one_of(st.just(0), st.integers(1, 45)),  # bytes of a truncated last frame left on the wire
        ))

    def run(self, case, ctx):
        from vlib import detsched as D
        from vlib import explore

        single = case.get("single")
        try:
            if single is not None:
                s, obs = run_inproc(case, explore.line_sparse(single[1]), preempt_at=(single[0],))
                judge_inproc(case, s, obs)
                return dict(nontrivial=True)
            s, obs = run_inproc(case, case["sparse"])
            took = judge_inproc(case, s, obs)
        except D.Deadlock as e:
            raise Violation("inproc.blocks-forever", f"{e.blocked}") from None
        except D.StepBudget:
            # a deterministic count of scheduler operations (400000; these runs need a few thousand), not a time limit
            raise Violation("inproc.no-progress", f"model {case['model']}, bodies {case['bodies']}, torn {case.get('torn', 0)}: the "
                            f"worker's threads were still running after 400000 scheduler operations: livelock") from None
        labels = [case["model"]] + sorted({"body:" + b for b in case["bodies"]}) + ["how:" + str(obs["how"]),
                                                                                 "took:%d" % (0 if took < 1 else 5 if took < 6 else 15)]
        if case.get("torn"):
            labels.append("torn-frame")
        runs, viol = 1, []
        # a tenth of the cases additionally get every single preemption inside the shutdown path enumerated
        if case["exhaustive"] and (ctx.shard + s.steps) % 5 == 0:
            for order in (0, 1):
                s0, obs0 = run_inproc(case, explore.base_sparse(order), count_lines=True)
                judge_inproc(case, s0, obs0)

                def one(line, alt):
                    try:
                        s1, obs1 = run_inproc(case, explore.line_sparse(alt), preempt_at=(line,))
                    except D.Deadlock as e:
                        raise Violation("inproc.blocks-forever", f"{e.blocked}") from None
                    except D.StepBudget:
                        raise Violation("inproc.no-progress", "still running after 400000 scheduler operations: livelock") from None
                    try:
                        judge_inproc(case, s1, obs1)
                    except Violation as v:
                        v.sched = s1
                        raise
                    return s1

                r, found, inc = explore.single_preemptions(one, s0.lines, explore.plan_stride(s0.lines, ctx.tier, 300),
                                                           ctx.seed, order=order, max_runs=None if ctx.tier == "thorough" else 350)
                runs += r
                viol += [(v, dict(case, single=list(la))) for v, la in found]
            labels.append("single-preemptions-enumerated")
        return dict(count=runs, nontrivial_count=max(0, runs - 1), violations=viol[:3], labels=labels,
                    nontrivial=any(b != "recv" for b in case["bodies"]),
                    sample={"model": case["model"], "bodies": case["bodies"], "gone_after_virtual_s": round(took, 2),
                            "how": obs["how"], "runs": runs})


PAIR_FOCUS = {"new", "_finished_receiving"}


class InprocPairs(Part):
    """two preemptions: every pair of source lines inside channel allocation (under its lock), the loss handler and the
    iteration of the channel table, for workers whose body allocates channels while the initiator vanishes"""

    name = "inproc-pairs"
    budget = {"quick": 16, "thorough": 64}
    min_per_shard = 1
    max_shards = 4

    def setup(self, ctx):
        from vlib import detsched as D

        D.preimport()

    def strategy(self, ctx):
        return st.fixed_dictionaries(dict(
            model=st.sampled_from(["thread", "main_thread_only"]),
            bodies=st.sampled_from([["newchannel_loop"], ["newchannel_loop", "recv"], ["recv", "newchannel_loop"]]),
            # 0.004 / 0.006: the initiator vanishes at the very instant the body's 2 ms sleep ends (timers that expire
            # together make both threads runnable: the schedule decides who goes first)
            settle=st.sampled_from([0.003, 0.004, 0.004, 0.006]),
            transport=st.just("pipe"),
        ))

    def run(self, case, ctx):
        from vlib import detsched as D
        from vlib import explore
        from vlib.core import Inconclusive

        pair = case.get("pair")
        sp = dict(pre=[], blk=[], line_pick=0, line_mode="delay")

        def one(i, j):
            try:
                s1, obs1 = run_inproc(case, sp, preempt_at=(i, j), focus=PAIR_FOCUS, count_from_cut=True)
            except D.Deadlock as e:
                raise Violation("inproc.blocks-forever", f"{e.blocked}") from None
            except D.StepBudget:
                raise Inconclusive("steps") from None
            judge_inproc(case, s1, obs1)

        if pair is not None:
            one(pair[0], pair[1])
            return dict(nontrivial=True)
        s0, obs0 = run_inproc(case, dict(pre=[], blk=[]), count_lines=True, focus=PAIR_FOCUS, count_from_cut=True)
        judge_inproc(case, s0, obs0)
        n = s0.lines
        runs, found, inc = explore.double_preemptions(one, n, max_runs=None if ctx.tier == "thorough" else 2500)
        if inc:
            ctx.count("inconclusive_runs", inc)
        return dict(count=runs, nontrivial_count=runs, violations=[(v, dict(case, pair=list(ij))) for v, ij in found][:3],
                    nontrivial=True, labels=[case["model"], "pairs"], sample={"focus_lines": n, "pairs": runs})


PARTS = [Orphans(), Inproc(), InprocPairs()]
