"""C08 - message frames survive any chunking and never interleave on the wire."""
from __future__ import annotations

import atexit
import hashlib
import itertools

from hypothesis import strategies as st

from vlib import detsched as D
from vlib import inproc, refcodec as R, templates as TP, tree, wires
from vlib.core import Inconclusive, Part, Violation

PROPERTY = "C08"
RULE = (
    "(frames) generated messages (type 0-7, channel id over the full signed 32-bit range incl. edges, payload 0..256 KB "
    "quick / 8 MB thorough) written with Message.to_io through the real Popen2IO / SocketIO over scripted transports "
    "and read back with Message.from_io through the peer class under generated read chunkings (incl. 1 byte per read) "
    "and partial sends; the wire bytes must equal the reference frame. (senders) 2-5 threads sending concurrently on "
    "one gateway end under the deterministic scheduler (dense schedules, partial sends, line-level preemption, every "
    "single line-preemption for small scenarios); the recorded wire must be a concatenation of whole reference frames "
    "with per-sender order preserved. (real) multi-threaded conversation programs with payloads larger than pipe and "
    "socket buffers over popen, socket and via gateways. Non-trivial = payload over 64 KB or chunk size 1 (frames); "
    "at least 2 senders and at least 2 context switches (senders); payload over 64 KB (real)."
)
ASSUMPTIONS = [
    "scripted transports implement documented OS behaviour only: short reads, partial sends, one atomic append per "
    "write() call of a pipe file object (BufferedWriter holds a lock per call)",
    "real part: socket and via gateways are created through a local popen gateway (installvia / via)",
]

EDGE_IDS = [0, 1, -1, 2**31 - 1, -(2**31), 2**31 - 2, 255, 256, 65535, 65536, -255]


def messages(max_payload):
    cid = st.one_of(st.sampled_from(EDGE_IDS), st.integers(-(2**31), 2**31 - 1))
    size = st.one_of(st.integers(0, 64), st.integers(0, 5000), st.integers(0, max_payload))
    return st.tuples(st.integers(0, 7), cid, size, st.integers(0, 255))


def payload_of(size, salt):
    if size == 0:
        return b""
    block = bytes((salt + i * 31) & 0xFF for i in range(min(size, 2048)))
    return (block * (size // len(block) + 1))[:size]


class Frames(Part):
    name = "frames"
    budget = {"quick": 3000, "thorough": 100000}

    def strategy(self, ctx):
        big = 256 * 1024 if ctx.tier == "quick" else 8 * 1024 * 1024
        return st.fixed_dictionaries(dict(
            msgs=st.lists(messages(big), min_size=1, max_size=6),
            transport=st.sampled_from(["pipe", "socket"]),
            chunks=st.lists(st.one_of(st.just(1), st.integers(1, 64), st.integers(1, 70000)), max_size=4),
            send_chunks=st.lists(st.one_of(st.just(1), st.integers(1, 9000)), max_size=3),
        ))

    def run(self, case, ctx):
        tree.use()
        from execnet import gateway_base as gb

        s = D.Scheduler()
        em = D.make_execmodel(s)
        chunks = list(case["chunks"])
        total = sum(m[2] for m in case["msgs"])
        # tiny reads of huge payloads only burn time (Popen2IO.read concatenates per low-level read): keep a message
        # within about 2000 low-level reads / partial sends
        floor = max(1, total // 2000)
        chunks = [max(c, floor) for c in chunks]
        send_chunks = [max(c, floor) for c in case["send_chunks"]]
        io_a, io_b, ab, ba = wires.io_pair(s, em, em, case["transport"], chunks, chunks[::-1], send_chunks)
        ab.keep_log = True
        sent = []
        for code, cid, size, salt in case["msgs"]:
            payload = payload_of(size, salt)
            sent.append((code, cid, payload))
            try:
                gb.Message(code, cid, payload).to_io(io_a)
            except BaseException as e:  # noqa: BLE001
                raise Violation("frames.write-raises", exc=e) from None
        want = b"".join(R.ref_frame(*m) for m in sent)
        if bytes(ab.log) != want:
            i = next((k for k in range(min(len(ab.log), len(want))) if ab.log[k] != want[k]), min(len(ab.log), len(want)))
            raise Violation("frames.wire-differs", f"wire differs from the reference frames at offset {i} "
                            f"({len(ab.log)} vs {len(want)} bytes)")
        for code, cid, payload in sent:
            try:
                m = gb.Message.from_io(io_b)
            except BaseException as e:  # noqa: BLE001
                raise Violation("frames.read-raises", exc=e) from None
            if (m.msgcode, m.channelid, m.data) != (code, cid, payload):
                raise Violation("frames.read-differs", f"sent ({code}, {cid}, {len(payload)} bytes) read back "
                                f"({m.msgcode}, {m.channelid}, {len(m.data)} bytes)")
        if ab.buf:
            raise Violation("frames.leftover", f"{len(ab.buf)} unread bytes remain after reading every message")
        one = bool(chunks) and 1 in chunks
        big = any(m[2] > 65536 for m in case["msgs"])
        labels = [case["transport"]] + (["chunk=1"] if one else []) + (["payload>64K"] if big else [])
        if any(m[1] in EDGE_IDS for m in case["msgs"]):
            labels.append("edge-channel-id")
        return dict(labels=labels, nontrivial=one or big,
                    sample={"msgs": [[m[0], m[1], m[2]] for m in case["msgs"]], "transport": case["transport"],
                            "chunks": chunks})


# ----------------------------------------------------------------------------- concurrent senders


def sender_case(max_threads=5, max_msgs=4, max_choices=200, preempts=3, sizes=(0, 40, 300, 9000, 70000)):
    msg = st.tuples(st.sampled_from(["send", "send", "raw", "drop"]), st.sampled_from(sizes), st.integers(0, 255))
    return st.fixed_dictionaries(dict(
        threads=st.lists(st.lists(msg, min_size=1, max_size=max_msgs), min_size=2, max_size=max_threads),
        transport=st.sampled_from(["pipe", "socket"]),
        send_chunks=st.lists(st.integers(1, 3000), max_size=3),
        choices=st.lists(st.integers(0, 5), max_size=max_choices),
        preempt=st.lists(st.integers(0, 999), max_size=preempts),
    ))


def run_senders(case, preempt_at=(), count_lines=False):
    s = D.Scheduler(case["choices"], preempt_at=preempt_at)
    if preempt_at or count_lines:
        s.enable_line_tracing()
    D.install_os_proxy(s)
    pair = wires.InprocPair(s, transport=case["transport"], send_chunks=case["send_chunks"])
    pair.ab.keep_log = True
    obs = dict(sent={}, errors=[])

    def sender(gw, ti, ch, msgs):
        try:
            k = 0
            for kind, size, salt in msgs:
                payload = payload_of(size, salt + k)
                if kind == "send":
                    ch.send(payload)
                    obs["sent"][ti].append((4, ch.id, R.ref_dumps(payload, versioned=False)))
                elif kind == "raw":
                    gw._send(4, ch.id, payload)
                    obs["sent"][ti].append((4, ch.id, payload))
                elif kind == "drop":
                    c2 = gw.newchannel()
                    cid = c2.id
                    del c2  # Channel.__del__ sends a close frame from this thread
                    obs["sent"][ti].append((5, cid, b""))
                k += 1
        except D.Abort:
            raise
        except BaseException as e:  # noqa: BLE001
            obs["errors"].append((ti, repr(e)))

    def user():
        gw = pair.make_gateway(wires.FakeGroup())
        evs = []
        for ti, msgs in enumerate(case["threads"]):
            obs["sent"][ti] = []
            ch = gw.newchannel()
            done = pair.em_a.Event()
            evs.append(done)

            def body(ti=ti, ch=ch, msgs=msgs, done=done):
                try:
                    sender(gw, ti, ch, msgs)
                finally:
                    done.set()

            s.spawn(body, name=f"sender{ti}")
        for e in evs:
            e.wait()
        obs["switches_at_end_of_sends"] = s.switches
        gw.exit()
        gw.join(60)

    pair.start_worker()
    s.spawn(user, name="user", must_finish=True)
    try:
        s.run()
    finally:
        s.shutdown()
    return s, pair, obs


def judge_senders(case, s, pair, obs):
    for name, exc in s.unhandled():
        raise Violation("senders.thread-died", f"{name}: {exc!r}", exc=exc)
    if obs["errors"]:
        raise Violation("senders.send-raised", repr(obs["errors"][:3]))
    wire = bytes(pair.ab.log)
    frames, used = R.parse_frames(wire)
    want = sorted(m for ms in obs["sent"].values() for m in ms)
    got = sorted(f for f in frames if f[0] in (4, 5))
    if used != len(wire) or got != want:
        raise Violation("senders.wire-not-whole-frames",
                        f"{len(wire)} bytes on the wire parse into {len(frames)} frames + {len(wire) - used} stray bytes; "
                        f"data/close frames sent {len(want)}, found {len(got)} "
                        f"(first frames {[(f[0], f[1], len(f[2])) for f in frames[:6]]})")
    for ti, ms in obs["sent"].items():
        mine = [f for f in frames if f in ms]
        if mine != ms:
            raise Violation("senders.per-sender-order", f"sender {ti}'s frames appear in a different order on the wire")
    other = [f[0] for f in frames if f[0] not in (4, 5)]
    if other != [2]:
        raise Violation("senders.unexpected-frames", f"control frames on the wire: {other}")


class Senders(Part):
    name = "senders"
    budget = {"quick": 1600, "thorough": 100000}

    def setup(self, ctx):
        D.preimport()
        D.selftest(40, seed=ctx.seed)

    def strategy(self, ctx):
        return sender_case()

    def run(self, case, ctx):
        try:
            pre = ()
            if case["preempt"]:
                s0, pair, obs = run_senders(case, count_lines=True)
                judge_senders(case, s0, pair, obs)
                pre = sorted({1 + (f * max(1, s0.lines)) // 1000 for f in case["preempt"]})
            s, pair, obs = run_senders(case, preempt_at=pre)
            judge_senders(case, s, pair, obs)
        except D.Deadlock as e:
            raise Violation("senders.blocks-forever", f"{e.blocked}") from None
        except D.StepBudget:
            raise Inconclusive("steps") from None
        kinds = {k for t in case["threads"] for k, _, _ in t}
        labels = [case["transport"], f"threads:{len(case['threads'])}"] + sorted("kind:" + k for k in kinds)
        if any(sz >= 9000 for t in case["threads"] for _, sz, _ in t):
            labels.append("large-payload")
        if pre:
            labels.append("line-preempt")
        return dict(labels=labels, nontrivial=obs.get("switches_at_end_of_sends", 0) >= 2,
                    sample={"threads": [[(k, sz) for k, sz, _ in t] for t in case["threads"]],
                            "transport": case["transport"], "switches": s.switches})


class SendersExhaustive(Part):
    name = "senders-exhaustive"
    budget = {"quick": 16, "thorough": 400}
    min_per_shard = 1

    def setup(self, ctx):
        D.preimport()

    def strategy(self, ctx):
        return sender_case(max_threads=2, max_msgs=2, max_choices=6, preempts=0, sizes=(0, 300, 9000, 70000))

    def run(self, case, ctx):
        single = case.get("single")
        try:
            if single is not None:
                s, pair, obs = run_senders(dict(case, choices=case["choices"] + [single[1]] * 4), preempt_at=(single[0],))
                judge_senders(case, s, pair, obs)
                return dict(nontrivial=True)
            s0, pair, obs = run_senders(case, count_lines=True)
            judge_senders(case, s0, pair, obs)
        except D.Deadlock as e:
            raise Violation("senders.blocks-forever", f"{e.blocked}") from None
        n = s0.lines
        stride = 1 if ctx.tier == "thorough" else max(1, n // 500)
        runs, viol = 0, []
        for line in range(1 + ctx.seed % stride, n + 1, stride):
            for alt in (0, 1):
                runs += 1
                try:
                    s, pair, obs = run_senders(dict(case, choices=list(case["choices"]) + [alt] * 4), preempt_at=(line,))
                    judge_senders(case, s, pair, obs)
                except Violation as v:
                    viol.append((v, dict(case, single=[line, alt])))
                except D.Deadlock as e:
                    viol.append((Violation("senders.blocks-forever", f"{e.blocked}"), dict(case, single=[line, alt])))
                except D.StepBudget:
                    ctx.count("inconclusive_runs")
        return dict(count=runs, nontrivial_count=runs, violations=viol[:3], nontrivial=True,
                    labels=[case["transport"], "complete" if stride == 1 else "strided"],
                    sample={"lines": n, "runs": runs, "stride": stride})


# ----------------------------------------------------------------------------- real transports

_pid = itertools.count(1)


class Real(Part):
    name = "real"
    budget = {"quick": 96, "thorough": 2400}
    max_shards = 6
    min_per_shard = 4

    def setup(self, ctx):
        self._mk()

    def _mk(self):
        execnet = tree.use()
        self.group = execnet.Group()
        self.base = self.group.makegateway("popen//id=base")
        self.gws = {
            "popen": self.group.makegateway("popen//id=direct"),
            "socket": self.group.makegateway("socket//installvia=base//id=sock"),
            "via": self.group.makegateway("popen//via=base//id=proxied"),
            # the same pipe transport with all remote senders being greenlets of one OS thread
            "popen-gevent": self.group.makegateway("popen//execmodel=gevent//id=gev"),
        }

    def _drop(self):
        from vlib.core import Watchdog

        try:
            with Watchdog(30):
                self.group.terminate(timeout=2.0)
        except BaseException:  # noqa: BLE001 - a broken gateway may refuse to go down politely
            pass
        finally:
            atexit.unregister(self.group._cleanup_atexit)

    def teardown(self, ctx):
        self._drop()

    def strategy(self, ctx):
        big = 400000 if ctx.tier == "quick" else 6000000
        blobs = st.lists(st.tuples(st.sampled_from(["blob", "tblob"]), st.integers(0, 99),
                                   st.one_of(st.integers(0, 70000), st.integers(60000, big))).map(
            lambda t: {t[0]: ["B", t[1], t[2]]}), min_size=1, max_size=3)
        conv = st.fixed_dictionaries(dict(
            a2b=st.lists(blobs, min_size=1, max_size=2), b2a=st.lists(blobs, min_size=1, max_size=2),
            kind_b=st.sampled_from(["recv", "callback"]), rcv_b=st.integers(1, 2),
            kind_a=st.sampled_from(["recv", "callback", "iter"]), rcv_a=st.integers(1, 2),
            sub=st.none(), wrap=st.just("bare")))
        return st.tuples(st.sampled_from(["popen", "socket", "via", "popen-gevent", "popen-gevent"]), st.lists(conv, min_size=1, max_size=4))

    def run(self, case, ctx):
        from vlib import convo

        transport, params = case
        if ctx.extra.get("hangs", 0) >= 2:
            ctx.count("skipped_after_hang_fuse")
            return dict(labels=["skipped:fuse"], nontrivial=False, count=0)
        gw = self.gws[transport]
        from vlib.core import Watchdog

        program, expects = TP.build_c02_program(params)
        try:
            with Watchdog(150) as wd:
                res = convo.run_a(gw, f"c08-{ctx.shard}-{next(_pid)}", program, inproc.CONVO_SRC)
            if wd.fired:
                ctx.count("hangs")
                raise Violation("real.hang", f"{transport}: program did not finish within 150 s (normal: < 2 s)", site=transport)
            self._judge(res, expects, transport, gw)
        except Violation:
            self._drop()
            self._mk()
            raise
        nsenders = sum(len(p["a2b"]) + len(p["b2a"]) for p in params)
        return dict(labels=[transport, f"senders:{min(nsenders, 8)}"], nontrivial=True)

    def _judge(self, res, expects, transport, gw):
        TP.check_actor_health(res, "real")
        if res["report"] != "ok":
            raise Violation("real.report-failed", f"{transport}: {res['report']}", site=transport)
        for ex in expects:
            try:
                TP.check_direction(res, ex, "real")
            except Violation as v:
                raise Violation(v.clause, f"{transport}: {v.detail}", site=transport) from None
        if not gw.hasreceiver():
            raise Violation("real.gateway-dead", f"{transport} gateway is no longer receiving", site=transport)


PARTS = [Frames(), Senders(), SendersExhaustive(), Real()]
