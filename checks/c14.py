"""C14 - main_thread_only executes in the main thread and never cries deadlock falsely."""
from __future__ import annotations

import atexit
import itertools
import os
import signal
import time

from hypothesis import strategies as st

from vlib import convo
from vlib import detsched as D
from vlib import inproc, tree
from vlib.core import Inconclusive, Part, Violation, Watchdog

PROPERTY = "C14"
RULE = (
    "Generated histories of 1-5 remote_exec calls on a main_thread_only worker; each body returns, raises, raises "
    "SystemExit, is interrupted (KeyboardInterrupt) or blocks until released; the next call is issued either after "
    "the previous channel has closed or (when the previous body blocks) while it is still running, 1-2 times. "
    "(sched) worker and initiator in-process on the deterministic scheduler (the 1-second grace wait is virtual time), "
    "generated bounded-preemption schedules + line-level preemption; (real) a sample of histories on real popen "
    "workers, interrupts delivered as real SIGINT. Oracle: every body reports the serve()/main thread, start/end "
    "events alternate in submission order, an overlapping submission gets the documented deadlock RemoteError and "
    "the blocked body still completes, a submission after the previous close always runs. "
    "Non-trivial = at least 2 calls with a non-return outcome before the last one."
)
ASSUMPTIONS = [
    "virtual time in the in-process part: the 1-second grace wait only expires when no thread is runnable, the "
    "assumption the code itself states ('practically impossible to report a false-positive')",
    "real part: after the previous channel closed the harness submits immediately; a loaded machine could in "
    "principle exceed the worker's 1 s grace wait - cases run with bounded concurrency",
]

DEADLOCK_TEXT = "concurrent remote_exec would cause deadlock for main_thread_only execmodel"
OUTCOMES = ["ret", "raise", "sysexit", "kbi", "block", "eof"]


NAPS = [0.5, 1.0, 1.5]


def histories(max_len=5, naps=True):
    kinds = OUTCOMES + ["ret", "block", "raise"] + (["nap", "nap"] if naps else [])
    step = st.tuples(st.sampled_from(kinds), st.integers(0, 2), st.integers(0, 2))
    return st.lists(step, min_size=1, max_size=max_len).map(lambda h: [list(x) for x in h])


def b_ops(k, outcome, nap=0.0):
    ops = [["ident"], ["gnote", "start", k]]
    if outcome == "block":
        ops += [["send", "main", f"started-{k}"], ["recv", "main", 1]]
    if outcome == "nap":
        ops += [["send", "main", f"started-{k}"], ["sleep", nap]]
    ops += [["gnote", "end", k]]
    if outcome == "raise":
        ops += [["raise", f"boom-{k}"]]
    elif outcome == "sysexit":
        ops += [["sysexit"]]
    elif outcome == "eof":
        # an EOFError leaving the body is swallowed by the worker ("receiving finished"); the call is over all the same
        ops += [["raise_eof", f"eof-{k}"]]
    elif outcome == "kbi":
        ops += [["raise_kbi"]]
    else:
        ops += [["send", "main", f"done-{k}"]]
    return ops


def build(history):
    """-> (program, plan) ; plan[k] = dict(outcome, overlapped(bool: this call was issued while another ran))"""
    a = []
    plan = []
    k = 0
    for outcome, noverlap, di in history:
        me = k
        a += [["remote_exec", f"c{me}", b_ops(me, outcome, NAPS[di]), me]]
        plan.append(dict(k=me, outcome=outcome, overlapped=False))
        k += 1
        if outcome == "nap":
            # the body finishes by itself after a (virtual) nap; calls issued meanwhile may be refused (grace wait of
            # 1 s expired) or run afterwards (it did not) - both are legitimate, what follows must not be disturbed
            a += [["recv", f"c{me}", 1]]
            for _ in range(noverlap):
                a += [["remote_exec", f"c{k}", b_ops(k, "ret"), k], ["waitclose", f"c{k}"]]
                plan.append(dict(k=k, outcome="ret", overlapped="maybe"))
                k += 1
            a += [["recv", f"c{me}", 1], ["waitclose", f"c{me}"]]
        elif outcome == "block":
            a += [["recv", f"c{me}", 1]]  # "started": the body is now running and parked in receive()
            for _ in range(noverlap):
                a += [["remote_exec", f"c{k}", b_ops(k, "ret"), k], ["waitclose", f"c{k}"]]
                plan.append(dict(k=k, outcome="ret", overlapped=True))
                k += 1
            a += [["send", f"c{me}", "go"], ["recv", f"c{me}", 1], ["waitclose", f"c{me}"]]
        elif outcome == "ret":
            a += [["recv", f"c{me}", 1], ["waitclose", f"c{me}"]]
        else:
            a += [["waitclose", f"c{me}"]]
    convids = [p["k"] for p in plan if p["overlapped"] is False]
    program = {"convs": [{"id": "h", "a": a, "has_b": False}], "sequential": True, "convids": convids}
    return program, plan


def judge(history, plan, res, main_ident=None, real=False):
    alog = res["a"].get("a:h:main", [])
    for e in alog:
        if e[0] in ("actor-died", "actor-timeout"):
            raise Violation("mto.actor-" + e[0], repr(e))
    if res["report"] != "ok":
        if DEADLOCK_TEXT in res["report"]:
            raise Violation("mto.false-deadlock", f"history {history}: the final remote_exec, issued after every channel had "
                            f"closed, was refused: {res['report'][:200]}")
        raise Violation("mto.report-failed", res["report"])
    blogs = res["b"] or {}
    waits = {e[1]: e[2:] for e in alog if e[0] == "waitclose"}
    items = [e for e in alog if e[0] == "item"]
    for e in alog:
        if e[0] == "remote_exec" and e[1] != "ok":
            raise Violation("mto.remote_exec-failed", repr(e))
    ran_maybe = []
    for p in plan:
        k = p["k"]
        blog = blogs.get(f"b:{k}:main", [])
        w = waits.get(f"c{k}")
        if p["overlapped"] == "maybe":
            refused = w is not None and w[0] == "remote_error" and DEADLOCK_TEXT in w[1]
            if refused and blog:
                raise Violation("mto.overlap-ran", f"call {k} was refused as deadlock but its body ran: {blog[:3]}")
            if not refused:
                if not blog or w is None or w[0] != "ok":
                    raise Violation("mto.overlap-inconsistent", f"call {k} (issued during a nap) was neither refused nor run "
                                    f"to completion: waitclose {w}, body log {blog[:3]}")
                ran_maybe.append(k)
            continue
        if p["overlapped"]:
            if w is None or w[0] != "remote_error" or DEADLOCK_TEXT not in w[1]:
                raise Violation("mto.overlap-not-refused", f"call {k} was issued while another body was running and got "
                                f"{w} instead of the documented deadlock error")
            if blog:
                raise Violation("mto.overlap-ran", f"call {k} was refused as deadlock but its body ran: {blog[:3]}")
            continue
        # a submission made after the previous channel closed (or the first one) must run
        if not blog or blog[0][0] != "ident":
            if w and len(w) > 1 and DEADLOCK_TEXT in str(w[1]):
                raise Violation("mto.false-deadlock", f"call {k} (outcome {p['outcome']}) was issued after the previous channel "
                                f"had closed but was refused with the deadlock error; history {history}")
            raise Violation("mto.body-did-not-run", f"call {k} never ran; initiator saw {w}")
        ident = blog[0]
        if real:
            if ident[2] is not True:
                raise Violation("mto.not-main-thread", f"call {k} ran outside the worker's main thread")
        elif main_ident is not None and ident[1] != main_ident:
            raise Violation("mto.not-main-thread", f"call {k} ran in thread {ident[1]}, serve() runs in {main_ident}")
        if w is None:
            raise Violation("mto.log-short", f"no waitclose outcome for call {k}")
        if p["outcome"] in ("ret", "block", "nap"):
            if w[0] != "ok":
                raise Violation("mto.completed-body-reported-error", f"call {k} ({p['outcome']}): waitclose gave {w[:2]}")
            if ["item", convo.fpj(f"done-{k}")] not in items:
                raise Violation("mto.result-lost", f"call {k} finished but its result item never arrived")
        elif p["outcome"] == "raise":
            if w[0] != "remote_error" or f"boom-{k}" not in w[1]:
                raise Violation("mto.error-not-reported", f"call {k} raised but waitclose gave {w[:2]}")
        elif p["outcome"] == "kbi":
            if w[0] != "remote_error" or "keyboard-interrupted" not in w[1]:
                raise Violation("mto.interrupt-not-reported", f"call {k} was interrupted but waitclose gave {w[:2]}")
    # global order: start/end strictly alternate, in submission order of the calls that ran
    g = blogs.get("b:global", [])
    ran = [p["k"] for p in plan if p["overlapped"] is False or p["k"] in ran_maybe]
    want = [x for k in ran for x in (["start", k], ["end", k])]
    if g != want:
        raise Violation("mto.order", f"bodies did not run one at a time in submission order: {g} expected {want}")


_pid = itertools.count(1)


class Sched(Part):
    name = "sched"
    budget = {"quick": 2000, "thorough": 60000}

    def setup(self, ctx):
        D.preimport()
        D.selftest(30, seed=ctx.seed)

    def strategy(self, ctx):
        return st.fixed_dictionaries(dict(
            history=histories(),
            sparse=st.fixed_dictionaries(dict(
                pre=st.lists(st.tuples(st.one_of(st.integers(0, 30), st.integers(0, 300)), st.integers(0, 4)).map(list), max_size=30),
                blk=st.lists(st.integers(0, 4), max_size=40))),
            preempt=st.lists(st.integers(0, 999), max_size=3),
            transport=st.sampled_from(["pipe", "socket"]),
        ))

    def _run(self, case, preempt_at=(), count_lines=False):
        program, plan = build(case["history"])
        program["convs"][0]["has_b"] = False
        ran = [p["k"] for p in plan if p["overlapped"] is False]
        # report_b must wait for the bodies that really run
        program["convs"] = program["convs"] + [{"id": k, "a": [], "has_b": True} for k in ran]
        out = inproc.run_program(program, sparse=case["sparse"], preempt_at=preempt_at, transport=case["transport"],
                                 backend_b="main_thread_only", count_lines=count_lines)
        return out, plan

    def _judge(self, case, out, plan):
        if out.budget:
            raise Inconclusive("steps")
        if out.deadlock is not None:
            raise Violation("mto.blocks-forever", f"{out.deadlock.blocked}")
        for name, exc in out.unhandled:
            raise Violation("mto.thread-died", f"{name}: {exc!r}", exc=exc)
        if out.sched.escalations:
            raise Violation("mto.escalation", f"{out.sched.escalations}")
        late = inproc.late_wakeups(out.sched)
        if late:
            raise Violation("mto.lost-wakeup", f"a blocked call was never woken, it only returned by its 60 s timeout: {late}")
        judge(case["history"], plan, out.result, main_ident=id(out.pair.worker_thread))

    def run(self, case, ctx):
        pre = ()
        if case["preempt"]:
            out0, plan = self._run(case, count_lines=True)
            self._judge(case, out0, plan)
            pre = sorted({1 + (f * max(1, out0.lines)) // 1000 for f in case["preempt"]})
        out, plan = self._run(case, preempt_at=pre)
        self._judge(case, out, plan)
        h = case["history"]
        nontriv = len(h) >= 2 and any(x[0] != "ret" for x in h[:-1])
        labels = sorted({"outcome:" + x[0] for x in h}) + [f"len:{len(h)}"]
        if any(p["overlapped"] for p in plan):
            labels.append("overlap")
        if out.sched.timeouts_fired:
            labels.append("virtual-timeout")
        return dict(labels=labels, nontrivial=nontriv, sample={"history": h, "switches": out.sched.switches})


FOCUS = {"_local_schedulexec", "executetask", "_mark_executetask_complete", "integrate_as_primary_thread",
         "_try_send_to_primary_thread", "spawn", "_perform_spawn", "run", "trigger_shutdown", "_channel_exec"}
BLK_PATTERNS = [[0] * 10, [1] * 10, [2] * 10, [1, 0] * 5, [2, 1] * 5]
SHAPES = [
    [["nap", 1, 1], ["ret", 0, 0]], [["nap", 2, 1], ["raise", 0, 0], ["ret", 0, 0]], [["block", 1, 0], ["ret", 0, 0]],
    [["raise", 0, 0], ["ret", 0, 0]], [["ret", 0, 0], ["ret", 0, 0]], [["kbi", 0, 0], ["block", 1, 0]],
    [["sysexit", 0, 0], ["nap", 1, 0], ["ret", 0, 0]], [["nap", 1, 2], ["ret", 0, 0]], [["eof", 0, 0], ["ret", 0, 0]],
]


class Focused(Part):
    """EVERY single preemption at a source line inside the worker's scheduling functions (WorkerPool hand-off,
    _local_schedulexec, executetask) x every other runnable thread, for a fixed list of history shapes plus
    generated ones"""

    name = "focused"
    budget = {"quick": 32, "thorough": 640}
    min_per_shard = 1

    def setup(self, ctx):
        D.preimport()

    def strategy(self, ctx):
        hist = st.one_of(st.sampled_from(SHAPES), st.sampled_from(SHAPES), histories(max_len=3))
        return st.fixed_dictionaries(dict(history=hist, transport=st.sampled_from(["pipe", "socket"])))

    def _run(self, case, sparse, preempt_at=(), count_lines=False):
        program, plan = build(case["history"])
        ran = [p["k"] for p in plan if p["overlapped"] is False]
        program["convs"] = program["convs"] + [{"id": k, "a": [], "has_b": True} for k in ran]
        out = inproc.run_program(program, sparse=sparse, preempt_at=preempt_at, transport=case["transport"],
                                 backend_b="main_thread_only", count_lines=count_lines, focus=FOCUS)
        return out, plan

    def run(self, case, ctx):
        from vlib import explore

        judge_out = Sched._judge
        single = case.get("single")
        if single is not None:
            out, plan = self._run(case, explore.line_sparse(single[1]), preempt_at=(single[0],))
            judge_out(self, case, out, plan)
            return dict(nontrivial=True)
        runs, viol, n = 0, [], 0
        for order in (0, 1):
            out0, plan = self._run(case, explore.base_sparse(order), count_lines=True)
            judge_out(self, case, out0, plan)
            n = out0.lines

            def one(line, alt):
                out, plan = self._run(case, explore.line_sparse(alt), preempt_at=(line,))
                try:
                    judge_out(self, case, out, plan)
                except Violation as v:
                    v.sched = out.sched
                    raise
                return out.sched

            r, found, inc = explore.single_preemptions(one, n, explore.plan_stride(n, ctx.tier, 450), ctx.seed, order=order,
                                                       max_runs=None if ctx.tier == "thorough" else 500)
            runs += r
            viol += [(v, dict(case, single=list(la))) for v, la in found]
            if inc:
                ctx.count("inconclusive_runs", inc)
        return dict(count=runs, nontrivial_count=runs, violations=viol[:3], nontrivial=True,
                    labels=["shape:" + "-".join(x[0] for x in case["history"])],
                    sample={"history": case["history"], "focus_lines": n, "runs": runs})


class Real(Part):
    name = "real"
    budget = {"quick": 16, "thorough": 400}
    max_shards = 8
    min_per_shard = 2

    def setup(self, ctx):
        execnet = tree.use()
        self.group = execnet.Group()

    def teardown(self, ctx):
        try:
            with Watchdog(30):
                self.group.terminate(timeout=2.0)
        except BaseException:  # noqa: BLE001
            pass
        finally:
            atexit.unregister(self.group._cleanup_atexit)

    def strategy(self, ctx):
        return histories(max_len=4, naps=False)

    def run(self, history, ctx):
        gw = self.group.makegateway("popen//execmodel=main_thread_only")
        try:
            program, plan = build(history)
            ran = [p["k"] for p in plan if p["overlapped"] is False]
            # real interrupts: the body parks in receive() and the harness sends SIGINT to the worker
            pidch = gw.remote_exec("import os; channel.send(os.getpid())")
            wpid = pidch.receive(30)
            pidch.waitclose(30)
            a = program["convs"][0]["a"]
            a2 = []
            for op in a:
                if op[0] == "remote_exec" and any(o == ["raise_kbi"] for o in op[2]):
                    k = op[3]
                    ops = [["ident"], ["gnote", "start", k], ["gnote", "end", k], ["send", "main", f"ready-{k}"],
                           ["recv", "main", 1, 30]]
                    a2 += [["remote_exec", op[1], ops, k], ["recv", op[1], 1], ["sigint", wpid]]
                else:
                    a2.append(op)
            program["convs"][0]["a"] = a2
            program["convs"] = program["convs"] + [{"id": k, "a": [], "has_b": True} for k in ran]
            with Watchdog(120) as wd:
                res = run_a_with_sigint(gw, f"c14-{ctx.shard}-{next(_pid)}", program)
            if wd.fired:
                raise Violation("mto.hang", f"history {history} did not finish within 120 s")
            judge(history, plan, res, real=True)
        finally:
            try:
                gw.exit()
            except Exception:
                pass
        nontriv = len(history) >= 2 and any(x[0] != "ret" for x in history[:-1])
        return dict(labels=sorted({"outcome:" + x[0] for x in history}), nontrivial=nontriv, sample={"history": history})


def run_a_with_sigint(gw, pid, program):
    """convo.run_a plus one harness-side op: ["sigint", pid]"""

    def op_sigint(self, wpid):
        time.sleep(0.3)  # let the body reach receive()
        os.kill(wpid, signal.SIGINT)
        self.log("sigint")

    convo.Actor.op_sigint = op_sigint
    return convo.run_a(gw, pid, program, inproc.CONVO_SRC)


PARTS = [Sched(), Focused(), Real()]
