"""C19 - channel files behave like files over the concatenated items."""
from __future__ import annotations

import io
import threading

from hypothesis import strategies as st

from vlib import refcodec as R
from vlib import tree, values as V
from vlib.core import Part, Violation
from vlib.wires import PipeGateway

PROPERTY = "C19"
RULE = (
    "(read) a generated text or byte string over an alphabet rich in newlines, a generated split into channel items "
    "(empty items allowed), a generated sequence of read(n) (n>=0) / readline() calls, items delivered to a real "
    "Channel of a real Gateway either completely before the first read or by a feeder thread while the reader runs; "
    "oracle io.StringIO/io.BytesIO over the concatenation, call by call, then emptiness after the end. "
    "(write) generated sequences of write/flush/file.close/channel.close with proxyclose in {False, True}; the wire "
    "is parsed with the reference frame codec. Non-trivial = at least two items and a read spanning an item boundary "
    "or a readline whose newline lies in a later item (read part); at least one write after a close (write part)."
)
ASSUMPTIONS = [
    "io.StringIO(newline='\\n') / io.BytesIO are the file model: '\\n' is the only line terminator",
    "emptiness (not type) of the result is compared once the model is exhausted",
    "feeder-thread mode uses real threads: the schedule is whatever the OS gives, only the results are compared",
]

ALPHA_T = "ab\n\n\n \x00é€\r"
ALPHA_B = b"ab\n\n\n \x00\xff\r"


def _texts():
    return st.one_of(st.text(st.sampled_from(ALPHA_T), max_size=30), V.texts(20))


def _bytes():
    return st.one_of(st.lists(st.sampled_from(list(ALPHA_B)), max_size=30).map(bytes), st.binary(max_size=20))


def _split(data, cuts):
    """cuts: sorted list of cut positions (duplicates give empty items)"""
    out, prev = [], 0
    for c in cuts:
        c = c * len(data) // 1000  # cuts are per-mille positions, so they land inside the data
        out.append(data[prev:c] if c >= prev else data[:0])
        prev = max(prev, c)
    out.append(data[prev:])
    return out


class Read(Part):
    name = "read"
    budget = {"quick": 4000, "thorough": 200000}

    def strategy(self, ctx):
        data = st.one_of(_texts(), _bytes())
        cuts = st.lists(st.integers(0, 1000), max_size=6).map(sorted)
        call = st.one_of(st.tuples(st.just("read"), st.integers(0, 12)), st.tuples(st.just("readline"), st.just(0)),
                         st.tuples(st.just("read"), st.integers(0, 50)))
        return st.tuples(data, cuts, st.lists(call, min_size=1, max_size=12), st.booleans(), st.booleans())

    def encode(self, case):
        d, cuts, calls, feeder, proxyclose = case
        return [V.to_json(d), cuts, [list(c) for c in calls], feeder, proxyclose]

    def decode(self, j):
        return (V.from_json(j[0]), j[1], [tuple(c) for c in j[2]], j[3], j[4])

    def run(self, case, ctx):
        data, cuts, calls, feeder, proxyclose = case
        items = _split(data, cuts)
        isb = isinstance(data, bytes)
        model = io.BytesIO(data) if isb else io.StringIO(data, newline="\n")
        pg = PipeGateway()
        try:
            ch = pg.gw.newchannel()
            f = ch.makefile("r", proxyclose=proxyclose)

            def feed():
                for it in items:
                    pg.inject(4, ch.id, R.ref_dumps(it, versioned=False))
                pg.inject(5, ch.id)

            t = None
            if feeder:
                t = threading.Thread(target=feed, daemon=True)
                t.start()
            else:
                feed()
            spans = False
            pos = 0
            bounds = set()
            acc = 0
            for it in items[:-1]:
                acc += len(it)
                bounds.add(acc)
            calls = list(calls) + [("read", 3), ("readline", 0), ("read", 1 << 20), ("read", 2), ("readline", 0)]
            for i, (op, n) in enumerate(calls):
                want = model.read(n) if op == "read" else model.readline()
                try:
                    got = f.read(n) if op == "read" else f.readline()
                except BaseException as e:  # noqa: BLE001
                    raise Violation(f"read.{op}-raises", exc=e) from None
                if want:
                    if got != want or type(got) is not type(want):
                        raise Violation(f"read.{op}-differs",
                                        f"call {i} {op}({n}) on items {items!r:.200}: got {got!r:.80} want {want!r:.80}")
                    if any(pos < b < pos + len(want) for b in bounds) or (
                            op == "readline" and any(pos < b <= pos + len(want) - 1 for b in bounds)):
                        spans = True
                    pos += len(want)
                else:
                    if len(got) != 0:
                        raise Violation(f"read.{op}-nonempty-after-end",
                                        f"call {i} {op}({n}): got {got!r:.80} although the file model is exhausted")
            if feeder:
                t.join(10)
            labels = ["bytes" if isb else "text", "feeder" if feeder else "prefilled", f"items:{min(len(items), 4)}"]
            if spans:
                labels.append("spans-boundary")
            if any(len(x) == 0 for x in items):
                labels.append("empty-item")
            return dict(labels=labels, nontrivial=len(items) >= 2 and spans)
        finally:
            if feeder:
                t.join(10)
            pg.close()


class Write(Part):
    name = "write"
    budget = {"quick": 1500, "thorough": 50000}
    max_shards = 8

    def strategy(self, ctx):
        item = st.one_of(_texts(), _bytes())
        op = st.one_of(st.tuples(st.just("write"), item), st.tuples(st.just("flush"), st.none()),
                       st.tuples(st.just("fclose"), st.none()), st.tuples(st.just("chclose"), st.none()),
                       st.tuples(st.just("write"), item))
        return st.tuples(st.booleans(), st.lists(op, min_size=1, max_size=10))

    def encode(self, case):
        return [case[0], [[k, V.to_json(x)] for k, x in case[1]]]

    def decode(self, j):
        return (j[0], [(k, V.from_json(x)) for k, x in j[1]])

    def run(self, case, ctx):
        proxyclose, ops = case
        pg = PipeGateway()
        try:
            ch = pg.gw.newchannel()
            f = ch.makefile("w", proxyclose=proxyclose)
            expect = []  # frames the peer must see for this channel: ("data", item) / ("close",)
            closed = False
            wrote_after_close = False
            for k, x in ops:
                try:
                    if k == "write":
                        if closed:
                            wrote_after_close = True
                            try:
                                f.write(x)
                            except OSError:
                                continue
                            raise Violation("write.after-close-accepted", f"write({x!r:.40}) after the channel was closed")
                        f.write(x)
                        expect.append(("data", x))
                    elif k == "flush":
                        f.flush()
                    elif k == "fclose":
                        f.close()
                        if proxyclose and not closed:
                            closed = True
                            expect.append(("close",))
                    elif k == "chclose":
                        ch.close()
                        if not closed:
                            closed = True
                            expect.append(("close",))
                except Violation:
                    raise
                except BaseException as e:  # noqa: BLE001
                    raise Violation(f"write.{k}-raises", exc=e) from None
                if ch.isclosed() != closed:
                    raise Violation("write.closed-state", f"after {k}: isclosed()={ch.isclosed()} expected {closed} "
                                    f"(proxyclose={proxyclose})")
            frames, torso = pg.sent_frames(wait=5.0, until=lambda fr: len([x for x in fr if x[1] == ch.id]) >= len(expect))
            got = []
            for code, cid, payload in frames:
                if cid != ch.id:
                    continue
                if code == 4:
                    got.append(("data", R.ref_loads(payload, versioned=False)))
                elif code == 5:
                    got.append(("close",))
                else:
                    got.append(("code", code))
            if torso or [V.fp(g) for g in got] != [V.fp(e) for e in expect]:
                raise Violation("write.wire-differs", f"peer would see {got!r:.300}, expected {expect!r:.300} torso={torso}")
            labels = ["proxyclose" if proxyclose else "noproxy"] + sorted({"op:" + k for k, _ in ops})
            if wrote_after_close:
                labels.append("write-after-close")
            return dict(labels=labels, nontrivial=wrote_after_close or len(expect) >= 2)
        finally:
            pg.close()


PARTS = [Read(), Write()]
