"""C06 - remote_exec runs exactly the given code with a live channel and clean stdio."""
from __future__ import annotations

import atexit
import importlib
import itertools
import os
import sys
import textwrap

from hypothesis import strategies as st

from vlib import refcodec as R
from vlib import tree, values as V
from vlib.core import Part, Violation, Watchdog, kill_leftovers

PROPERTY = "C06"
RULE = (
    "Generated programs from a small statement grammar (assignments, arithmetic on parameters, import inside the body, "
    "loops, channel.send, try/except, an explicit channel.close() that must be refused, stdout/stderr/fd-1/fd-2/"
    "os.system writes of 0..1 MB between sends, a raise at a generated statement index, a park in channel.receive()) "
    "rendered in three forms - source string (with generated indentation), function (top-level or nested, with "
    "generated keyword parameters, defaults and generated kwargs of all serialisable types) written to a generated "
    "module file, and whole module - and executed on real popen, socket and via gateways. Function shapes that must "
    "be rejected (closure, module global, lambda, wrong or missing first parameter, decorated) are generated too. "
    "Oracle: differential - the same program interpreted locally against a recording channel predicts every item; "
    "__name__ == '__channelexec__' and channel bound; a raise at statement i gives a RemoteError naming the generated "
    "file ('<remote exec>' for strings) and the exact line; while the body is parked the channel is open and "
    "waitclose times out, afterwards waitclose returns and receive raises EOFError; rejected functions raise "
    "ValueError/TypeError locally with no frame written and no channel id consumed; the gateway stays receive-live. "
    "Non-trivial = at least 2 statements and a kwarg, or a stdio write of at least 64 KB between two sends."
)
ASSUMPTIONS = [
    "functions using comprehensions or inner defs are not generated (the checker may be conservative there)",
    "worker stderr is redirected to /dev/null for this check (generated programs write megabytes to fd 2)",
]

# ----------------------------------------------------------------------------- program grammar


def statements():
    st_send = st.tuples(st.just("send"), st.sampled_from(["a", "b", "a + 1", "len(str(b))", "[a, b]", "(a, 'x')", "{'k': a}",
                                                            "str(a) * 2", "None", "True", "2.5", "b'bytes'", "-a"]))
    st_assign = st.tuples(st.just("assign"), st.sampled_from(["a + 2", "a * 3", "len(str(b)) + a", "abs(a - 7)"]))
    st_loop = st.tuples(st.just("loop"), st.integers(0, 4))
    st_import = st.tuples(st.just("import"), st.sampled_from(["os", "sys", "json"]))
    st_try = st.tuples(st.just("try"), st.sampled_from(["ValueError", "KeyError"]))
    st_close = st.tuples(st.just("close"), st.none())
    st_name = st.tuples(st.just("name"), st.none())
    st_acc = st.tuples(st.just("acc"), st.none())  # touches definition-time state (a mutable default / module-level list)
    st_stdio = st.tuples(st.just("stdio"), st.tuples(st.sampled_from(["print", "stdout", "stderr", "fd1", "fd2", "system"]),
                                                     st.one_of(st.integers(0, 200), st.integers(0, 70000), st.integers(60000, 1000000))))
    return st.lists(st.one_of(st_send, st_send, st_assign, st_loop, st_import, st_try, st_close, st_name, st_stdio, st_acc),
                    min_size=1, max_size=8)


def render_body(stmts, raise_at, park_at, indent, exc="ValueError"):
    """-> (list of source lines, line index (0-based, within the body) of the raise statement or None)"""
    lines, raise_line = [], None
    for i, (kind, arg) in enumerate(stmts):
        if park_at == i:
            lines.append("channel.send('parked')")
            lines.append("channel.receive()")
        if raise_at == i:
            raise_line = len(lines)
            lines.append(f"raise {exc}('stmt-{i}')")
        if kind == "send":
            lines.append(f"channel.send({arg})")
        elif kind == "assign":
            lines.append(f"a = {arg}")
        elif kind == "loop":
            lines.append(f"for i_ in range({arg}):")
            lines.append("    channel.send(i_ + a)")
        elif kind == "import":
            lines.append(f"import {arg}")
            lines.append(f"channel.send({arg}.__name__)")
        elif kind == "try":
            lines.append("try:")
            lines.append(f"    raise {arg}('inner')")
            lines.append(f"except {arg}:")
            lines.append("    channel.send('caught')")
        elif kind == "close":
            lines.append("try:")
            lines.append("    channel.close()")
            lines.append("    channel.send('close-accepted')")
            lines.append("except OSError:")
            lines.append("    channel.send('close-refused')")
        elif kind == "name":
            lines.append("channel.send(__name__)")
        elif kind == "acc":
            lines.append("acc.append(a)")
            lines.append("channel.send(len(acc))")
        elif kind == "stdio":
            how, n = arg
            lines.append("import os, sys")
            if how == "print":
                lines.append(f"print('p' * {n})")
            elif how == "stdout":
                lines.append(f"sys.stdout.write('o' * {n}); sys.stdout.flush()")
            elif how == "stderr":
                lines.append(f"sys.stderr.write('e' * {n}); sys.stderr.flush()")
            elif how == "fd1":
                lines.append(f"os.write(1, b'1' * {n})")
            elif how == "fd2":
                lines.append(f"os.write(2, b'2' * {n})")
            else:
                lines.append(f"os.system('echo {'s' * min(n, 500)}')")
            lines.append(f"channel.send('after-stdio-{i}')")
    return [" " * indent + ln for ln in lines], raise_line


class Recorder:
    """stands in for a channel when the program is interpreted locally"""

    def __init__(self):
        self.items = []

    def send(self, x):
        self.items.append(x)

    def receive(self):
        return "go"

    def close(self):
        raise OSError("cannot explicitly close channel within remote_exec")


def predict(stmts, raise_at, park_at, a, b, exc="ValueError"):
    """what the remote run must send, computed by executing the same rendered body locally with stdio suppressed"""
    lines, _ = render_body(stmts, raise_at, park_at, 0, exc)
    src = "\n".join(ln for ln in lines)
    # stdio statements are side effects outside the channel: neutralise them for the local run
    src = src.replace("os.system(", "(lambda *_: 0)(").replace("os.write(", "(lambda *_: 0)(")
    src = src.replace("print(", "(lambda *_: 0)(").replace("sys.stdout.write(", "(lambda *_: 0)(").replace(
        "sys.stderr.write(", "(lambda *_: 0)(").replace("sys.stdout.flush()", "None").replace("sys.stderr.flush()", "None")
    rec = Recorder()
    env = {"channel": rec, "a": a, "b": b, "__name__": "__channelexec__", "acc": []}
    err = None
    try:
        exec(compile(src, "<predict>", "exec"), env)
    except (ValueError, KeyError, EOFError, RuntimeError) as e:
        err = str(e)
    return rec.items, err


def programs():
    def build(t):
        stmts, raise_at, park_at, indent, form, a, b, extra_kw, lead, exc = t
        return dict(stmts=[list(s) if not isinstance(s[1], tuple) else [s[0], list(s[1])] for s in stmts],
                    raise_at=raise_at if raise_at is not None and raise_at < len(stmts) else None,
                    park_at=park_at if park_at is not None and park_at < len(stmts) else None,
                    indent=indent, form=form, a=a, b=V.to_json(b), extra_kw=V.to_json(extra_kw), lead=lead, exc=exc)

    return st.tuples(statements(), st.one_of(st.none(), st.integers(0, 7)), st.one_of(st.none(), st.none(), st.integers(0, 7)),
                     st.sampled_from([0, 4, 8]), st.sampled_from(["string", "function", "nested", "module"]),
                     st.integers(-5, 50), V.values(max_leaves=4), V.values(max_leaves=3), st.integers(0, 12),
                     st.sampled_from(["ValueError", "ValueError", "KeyError", "RuntimeError", "EOFError"])).map(build)


GLOBAL_DECOYS = {
    # the function reads the module global G; something else in it merely has the same name
    "inner_param": "    def fmt(G):\n        return [G]\n    channel.send(fmt(1))\n    channel.send(G)\n",
    "lambda_param": "    channel.send(sorted([2, 1], key=lambda G: -G))\n    channel.send(G)\n",
    "inner_local": "    def helper():\n        G = 2\n        return G\n    channel.send(helper() * G)\n",
    "comprehension": "    channel.send([G for G in range(3)])\n    channel.send(G)\n",
    "nested_use": "    def helper():\n        return G\n    channel.send(helper())\n",
    "attribute": "    channel.send(G.real)\n",
    "call_arg": "    channel.send(abs(G))\n",
    "default_of_inner": "    def helper(x=G):\n        return x\n    channel.send(helper())\n",
    "inner_cellvar": "    def outer():\n        G = 1\n        def inner():\n            return G\n        return inner()\n    channel.send(outer() + G)\n",
}
REJECTS = ["closure", "global", "lambda", "wrong_first", "no_params", "decorated", "kwargs_to_string"] + [
    "global:" + k for k in GLOBAL_DECOYS]

# ----------------------------------------------------------------------------- the check

_n = itertools.count(1)


class Exec(Part):
    name = "exec"
    budget = {"quick": 1200, "thorough": 30000}
    max_shards = 8
    min_per_shard = 20

    def setup(self, ctx):
        self.execnet = tree.use()
        devnull = os.open(os.devnull, os.O_WRONLY)
        self.saved_err = os.dup(2)
        os.dup2(devnull, 2)  # workers inherit it: generated programs write megabytes to fd 2
        os.close(devnull)
        self.pkg = os.path.join(ctx.scratch, "genpkg")
        os.makedirs(self.pkg)
        sys.path.insert(0, self.pkg)
        self.broken = None
        self._mk()

    def _mk(self):
        """(re)create the gateways; creation itself is guarded: if it hangs, every case reports that"""
        with Watchdog(90) as wd:
            try:
                self._mk_unguarded()
            except BaseException as e:  # noqa: BLE001
                self.broken = f"creating the gateways failed: {type(e).__name__}: {e}"
        if wd.fired:
            self.broken = "creating popen/socket/via gateways did not finish within 90 s"

    def _mk_unguarded(self):
        self.group = self.execnet.Group()
        self.base = self.group.makegateway("popen//id=base")
        self.gws = [("popen", self.group.makegateway("popen//id=direct")),
                    ("socket", self.group.makegateway("socket//installvia=base//id=sock")),
                    ("via", self.group.makegateway("popen//via=base//id=proxied")),
                    ("mto", self.group.makegateway("popen//execmodel=main_thread_only//id=mto"))]
        self.written = {}
        for name, gw in self.gws:
            self._count(name, gw)

    def _count(self, name, gw):
        self.written[name] = []
        io_ = gw._io
        orig = io_.write

        def counting(data, orig=orig, log=self.written[name]):
            log.append(bytes(data[:9]))
            return orig(data)

        io_.write = counting

    def _drop(self):
        if not hasattr(self, "group"):
            return
        try:
            with Watchdog(30):
                self.group.terminate(timeout=2.0)
        except BaseException:  # noqa: BLE001
            pass
        finally:
            atexit.unregister(self.group._cleanup_atexit)
            kill_leftovers()

    def teardown(self, ctx):
        self._drop()
        os.dup2(self.saved_err, 2)
        os.close(self.saved_err)
        if self.pkg in sys.path:
            sys.path.remove(self.pkg)

    def strategy(self, ctx):
        return st.one_of(programs().map(lambda p: ("run", p)), programs().map(lambda p: ("run", p)),
                         st.sampled_from(REJECTS).map(lambda r: ("reject", r)))

    def encode(self, case):
        return list(case)

    def decode(self, j):
        return (j[0], j[1])

    # -- helpers
    def _module(self, text):
        name = f"gen_{os.getpid()}_{next(_n)}"
        path = os.path.join(self.pkg, name + ".py")
        with open(path, "w") as f:
            f.write(text)
        importlib.invalidate_caches()
        return importlib.import_module(name), path

    def run(self, case, ctx):
        kind, p = case
        n = next(_n)
        if self.broken:
            if ctx.extra.get("broken_reported"):
                return dict(labels=["skipped:gateways-broken"], nontrivial=False, count=0)
            ctx.count("broken_reported")
            raise Violation("exec.gateway-creation", self.broken)
        if ctx.extra.get("hangs", 0) >= 2:
            ctx.count("skipped_after_hang_fuse")  # every further hang would cost another watchdog period
            return dict(labels=["skipped:fuse"], nontrivial=False, count=0)
        tname, gw = self.gws[n % len(self.gws)]
        try:
            with Watchdog(60) as wd:
                if kind == "reject":
                    out = self._reject(p, tname, gw)
                else:
                    out = self._run(p, tname, gw)
            if wd.fired:
                ctx.count("hangs")
                raise Violation("exec.hang", f"{tname}: case did not finish within 60 s (normal: well below 1 s)", site=tname)
            if not gw.hasreceiver():
                raise Violation("exec.gateway-dead", f"{tname}: gateway no longer receive-live after the program", site=tname)
            return out
        except Violation:
            self._drop()
            self._mk()
            raise

    def _reject(self, shape, tname, gw):
        G = 5  # noqa: F841,N806 - captured below
        if shape == "closure":
            def f(channel):
                channel.send(G)
            src, kw = f, {}
        elif shape == "global":
            mod, _ = self._module("import os\nG = 7\ndef f(channel):\n    channel.send(G)\n")
            src, kw = mod.f, {}
        elif shape.startswith("global:"):
            mod, _ = self._module("G = 7\ndef f(channel):\n" + GLOBAL_DECOYS[shape[7:]])
            src, kw = mod.f, {}
        elif shape == "lambda":
            src, kw = (lambda channel: channel.send(1)), {}
        elif shape == "wrong_first":
            mod, _ = self._module("def f(chan, channel=None):\n    chan.send(1)\n")
            src, kw = mod.f, {}
        elif shape == "no_params":
            mod, _ = self._module("def f():\n    pass\n")
            src, kw = mod.f, {}
        elif shape == "decorated":
            mod, _ = self._module("def deco(fn):\n    return fn\n\n@deco\ndef f(channel):\n    channel.send(1)\n")
            src, kw = mod.f, {}
        else:  # kwargs with a source string
            src, kw = "channel.send(1)", {"a": 1}
        log = self.written[tname]
        before_frames, before_count = len(log), gw._channelfactory.count
        try:
            ch = gw.remote_exec(src, **kw)
        except (ValueError, TypeError):
            pass
        except BaseException as e:  # noqa: BLE001
            raise Violation("exec.reject-wrong-exception", exc=e) from None
        else:
            try:
                ch.waitclose(10)
            except Exception:
                pass
            raise Violation("exec.reject-accepted", f"{tname}: a function of shape {shape!r} was sent for remote execution",
                            site=shape)
        new = [h for h in log[before_frames:] if h[:1] in (b"\x03", b"\x04")]
        if new:
            raise Violation("exec.reject-sent-something", f"{shape}: frames {new} were written before the rejection", site=shape)
        if gw._channelfactory.count != before_count:
            raise Violation("exec.reject-consumed-channel-id", f"{shape}: channel id counter moved from {before_count} to "
                            f"{gw._channelfactory.count}", site=shape)
        return dict(labels=["reject:" + shape, tname], nontrivial=True)

    def _run(self, p, tname, gw):
        stmts = [(k, tuple(a) if isinstance(a, list) else a) for k, a in p["stmts"]]
        b = V.from_json(p["b"])
        extra = V.from_json(p["extra_kw"])
        a = p["a"]
        exc = p.get("exc", "ValueError")
        want_items, want_err = predict(stmts, p["raise_at"], p["park_at"], a, b, exc)
        form = p["form"]
        lead = "\n".join("# filler %d" % i for i in range(p["lead"])) + ("\n" if p["lead"] else "")
        if form == "string":
            body, raise_line = render_body(stmts, p["raise_at"], p["park_at"], p["indent"], exc)
            # a source string cannot carry arguments: a and b are literals in the text (repr() of an arbitrary value is
            # not a faithful literal - set order, -0j - so only the function forms get generated values, as kwargs)
            pre = [" " * p["indent"] + f"a = {a!r}", " " * p["indent"] + "b = 'plain'", " " * p["indent"] + "acc = []"]
            want_items, want_err = predict(stmts, p["raise_at"], p["park_at"], a, "plain", exc)
            text = "\n".join(pre + body) + "\n"
            ch = gw.remote_exec(text)
            where, line = "<remote exec>", (None if raise_line is None else raise_line + len(pre) + 1)
        elif form in ("function", "nested"):
            body, raise_line = render_body(stmts, p["raise_at"], p["park_at"], 8 if form == "nested" else 4, exc)
            if form == "function":
                text = lead + "def f(channel, a, b=3, extra=None, acc=[]):\n" + "\n".join(body) + "\n"
                mod, path = self._module(text)
                fn = mod.f
                line = None if raise_line is None else p["lead"] + 1 + raise_line + 1
            else:
                text = lead + "def make():\n    def f(channel, a, b=3, extra=None, acc=[]):\n" + "\n".join(body) + "\n    return f\n"
                mod, path = self._module(text)
                fn = mod.make()
                line = None if raise_line is None else p["lead"] + 2 + raise_line + 1
            try:
                ch = gw.remote_exec(fn, a=a, b=b, extra=extra)
            except BaseException as e:  # noqa: BLE001
                raise Violation("exec.pure-function-rejected", exc=e) from None
            where = path
        else:
            body, raise_line = render_body(stmts, p["raise_at"], p["park_at"], 4, exc)
            text = lead + f"a = {a!r}\nb = 'modb'\nacc = []\nif __name__ == '__channelexec__':\n" + "\n".join(body) + "\n"
            want_items, want_err = predict(stmts, p["raise_at"], p["park_at"], a, "modb", exc)
            mod, path = self._module(text)
            ch = gw.remote_exec(mod)
            where, line = path, (None if raise_line is None else p["lead"] + 4 + raise_line + 1)
        # ---- observe
        got, err = [], None
        parked_seen = False
        while True:
            try:
                item = ch.receive(60)
            except EOFError:
                break
            except ch.RemoteError as e:
                err = str(e)
                break
            except BaseException as e:  # noqa: BLE001
                raise Violation("exec.receive-raises", exc=e) from None
            got.append(item)
            if p["park_at"] is not None and not parked_seen and item == "parked" and len(got) <= len(want_items) \
                    and want_items[len(got) - 1] == "parked":
                parked_seen = True
                # the body is parked in receive(): the channel must be open, waitclose must time out
                if ch.isclosed():
                    raise Violation("exec.closed-while-running", f"{tname}: isclosed() is true while the body is still running")
                try:
                    ch.waitclose(0.2)
                    raise Violation("exec.waitclose-returned-while-running", f"{tname}: waitclose returned while the body is parked")
                except ch.TimeoutError:
                    pass
                ch.send("go")
        try:
            ch.waitclose(30)
        except ch.RemoteError as e:
            err = err or str(e)
        except BaseException as e:  # noqa: BLE001
            raise Violation("exec.waitclose-raises", exc=e) from None
        try:
            ch.receive(5)
            raise Violation("exec.item-after-end", "receive() returned an item after the execution finished")
        except EOFError:
            pass
        except ch.RemoteError:
            pass
        if [V.fp(x) for x in got] != [V.fp(x) for x in want_items]:
            i = next((k for k in range(min(len(got), len(want_items))) if V.fp(got[k]) != V.fp(want_items[k])),
                     min(len(got), len(want_items)))
            raise Violation("exec.items-differ", f"{tname}/{form}: item {i}: remote sent {got[i:i+2]!r:.200}, the local "
                            f"interpretation predicts {want_items[i:i+2]!r:.200} ({len(got)} vs {len(want_items)} items)",
                            site=form)
        if exc == "EOFError" and want_err is not None:
            # an EOFError leaving the body is taken as "the connection went away" and not reported; the channel must
            # still end by itself (checked above: waitclose returned), with or without an error
            want_err = err = None
        if (want_err is None) != (err is None):
            raise Violation("exec.error-differs", f"{tname}/{form}: predicted error {want_err!r}, remote {err and err[-300:]!r}", site=form)
        if want_err is not None:
            if f"{exc}: {want_err}" not in err:
                raise Violation("exec.error-text", f"{form}: RemoteError lacks the exception text: {err[-300:]!r}", site=form)
            needle = f'File "{where}", line {line}'
            if needle not in err:
                raise Violation("exec.traceback-location", f"{form}: RemoteError does not name {needle!r}: {err[-400:]!r}", site=form)
        again = False
        if form in ("function", "nested") and p["raise_at"] is None and p["park_at"] is None and any(k == "acc" for k, _ in stmts):
            # "runs exactly the given code": sending the same function again starts from its definition again
            again = True
            got2 = []
            try:
                ch2 = gw.remote_exec(fn, a=a, b=b, extra=extra)
                while True:
                    try:
                        got2.append(ch2.receive(60))
                    except EOFError:
                        break
            except BaseException as e:  # noqa: BLE001
                raise Violation("exec.second-run-raises", exc=e) from None
            if [V.fp(x) for x in got2] != [V.fp(x) for x in want_items]:
                raise Violation("exec.second-run-differs", f"{tname}/{form}: the same function sent a second time produced "
                                f"{got2!r:.200}, the first time (and the local interpretation) {want_items!r:.200}", site=form)
        big = any(k == "stdio" and a_[1] >= 65536 for k, a_ in stmts)
        labels = [tname, "form:" + form] + (["sent-twice"] if again else []) + sorted({"stmt:" + k for k, _ in stmts})
        if want_err is not None:
            labels.append("raises")
        if parked_seen:
            labels.append("parked")
        if big:
            labels.append("stdio>=64K")
        return dict(labels=labels, nontrivial=(len(stmts) >= 2 and form in ("function", "nested")) or big,
                    sample={"form": form, "transport": tname, "source": text[:600]})


PARTS = [Exec()]
