"""C05 - Group.terminate(timeout) returns promptly and leaves no local child behind."""
from __future__ import annotations

import atexit
import os
import signal
import time

from hypothesis import strategies as st

from vlib import tree
from vlib.core import Part, Violation, Watchdog, alive, descendants, kill_leftovers, leftovers

PROPERTY = "C05"
RULE = (
    "Generated groups of 1-4 gateways: topology in {popen, popen//python=, socket//installvia, popen//via}, remote "
    "execmodel in {thread, main_thread_only, gevent}, per gateway a remote activity from {idle, blocked in receive, "
    "busy loop, sleep, KeyboardInterrupt swallowed, SIGINT ignored, extra daemon / non-daemon threads, self-SIGSTOP, "
    "already SIGKILLed, remote_exec submitted just before} (gevent workers only get cooperative activities), "
    "timeout in {0.2, 0.5, 1.0}; plus generated failing makegateway calls (explicit id already live, explicit id "
    "equal to a later automatic id, unknown gateway type, missing via gateway, unknown execmodel, python= that does "
    "not exist, chdir that cannot be created). Oracle: terminate(t) returns within 6t+3 s, the group is empty, every "
    "worker pid recorded for a member is gone or a zombie, and after a failed makegateway followed by terminate no "
    "live process started by this harness process remains. Non-trivial = at least one member was not idle, or the "
    "case contained a failing makegateway."
)
ASSUMPTIONS = [
    "promptness bound 6*timeout+3 s: two rounds for via topologies x (term wait + kill + pool wait); observed about "
    "1*timeout; cases run with bounded concurrency (6 shards, at most one busy-looping worker per group)",
    "any exception type is accepted for a failing makegateway; what is asserted is that nothing is left running",
    "worker pids are learned through remote_exec(os.getpid()); liveness from /proc (state Z or absent = exited)",
]

ACTIVITIES = {
    "idle": None,
    "receive": "channel.receive()",
    "busy": "while True: pass",
    "sleep": "import time\ntime.sleep(1000)",
    "swallow": "import time\nwhile True:\n    try:\n        time.sleep(1000)\n    except KeyboardInterrupt:\n        pass",
    "sigint_ignored": "import signal, time\nsignal.signal(signal.SIGINT, signal.SIG_IGN)\ntime.sleep(1000)",
    "daemon_threads": "import threading, time\nfor i in range(3):\n    t = threading.Thread(target=time.sleep, args=(1000,)); t.daemon = True; t.start()\nchannel.receive()",
    "nondaemon_threads": "import threading, time\nfor i in range(2):\n    threading.Thread(target=time.sleep, args=(1000,)).start()\n",
    "sigstop": "import os, signal\nos.kill(os.getpid(), signal.SIGSTOP)",
    "killed": None,
    "just_submitted": None,
    "gsleep": "import gevent\ngevent.sleep(1000)",
}
GEVENT_OK = ["idle", "receive", "gsleep", "just_submitted", "killed"]
THREAD_OK = [a for a in ACTIVITIES if a != "gsleep"]
FAILS = ["dup_explicit", "future_auto", "unknown_type", "missing_via", "bad_execmodel", "missing_python", "bad_chdir"]


def members():
    def fix(m):
        m = dict(m)
        if m["model"] == "gevent" and m["activity"] not in GEVENT_OK:
            m["activity"] = "gsleep"
        if m["model"] != "gevent" and m["activity"] == "gsleep":
            m["activity"] = "sleep"
        if m["topology"] == "socket":
            m["model"] = "thread"  # the socket server executes inside its host gateway, whose model it inherits
            # ... and shares that process with the forwarder of the via members: stopping, killing or saturating it is a
            # fault of the *forwarding* gateway, which changes what terminate() can do for the proxied workers (they were
            # not started locally and then go away by themselves, C11) - outside this property's domain
            if m["activity"] in ("sigstop", "killed", "busy", "sigint_ignored", "nondaemon_threads"):
                m["activity"] = "sleep"
        if m["activity"] == "sigint_ignored" and m["model"] == "main_thread_only":
            pass
        return m

    return st.fixed_dictionaries(dict(
        topology=st.sampled_from(["popen", "popen", "python", "socket", "via"]),
        model=st.sampled_from(["thread", "thread", "main_thread_only", "gevent"]),
        activity=st.sampled_from(sorted(ACTIVITIES)),
    )).map(fix)


def strategy():
    return st.fixed_dictionaries(dict(
        members=st.lists(members(), min_size=1, max_size=4),
        timeout=st.sampled_from([0.2, 0.5, 1.0]),
        fails=st.lists(st.sampled_from(FAILS), max_size=2),
    ))


class Terminate(Part):
    name = "terminate"
    budget = {"quick": 96, "thorough": 3000}
    max_shards = 6
    min_per_shard = 4

    def setup(self, ctx):
        self.execnet = tree.use()
        import sys

        self.py = sys.executable
        # children inherit fd 2: generated failing bootstraps print their tracebacks there
        devnull = os.open(os.devnull, os.O_WRONLY)
        self.saved_err = os.dup(2)
        os.dup2(devnull, 2)
        os.close(devnull)

    def teardown(self, ctx):
        os.dup2(self.saved_err, 2)
        os.close(self.saved_err)

    def strategy(self, ctx):
        return strategy()

    def run(self, case, ctx):
        execnet = self.execnet
        kill_leftovers()
        group = execnet.Group()
        pids, labels = [], []
        busy_used = False
        base = None
        t_total = time.time()
        try:
            with Watchdog(120) as wd:
                for i, m in enumerate(case["members"]):
                    act = m["activity"]
                    if act == "busy":
                        if busy_used:
                            act = "sleep"
                        busy_used = True
                    if m["topology"] in ("socket", "via") and base is None:
                        base = group.makegateway("popen//id=base")
                        pids.append(("base", base.remote_exec("import os; channel.send(os.getpid())").receive(30)))
                    if m["topology"] == "popen":
                        spec = f"popen//execmodel={m['model']}"
                    elif m["topology"] == "python":
                        spec = f"popen//python={self.py}//execmodel={m['model']}"
                    elif m["topology"] == "socket":
                        spec = "socket//installvia=base"
                    else:
                        spec = f"popen//via=base//execmodel={m['model']}"
                    gw = group.makegateway(spec)
                    pc = gw.remote_exec("import os; channel.send(os.getpid())")
                    pid = pc.receive(30)
                    pc.waitclose(30)
                    pids.append((f"{m['topology']}/{m['model']}/{act}", pid))
                    src = ACTIVITIES.get(act)
                    if src:
                        gw.remote_exec(src)
                    elif act == "killed" and m["topology"] != "socket":
                        os.kill(pid, signal.SIGKILL)
                    labels.append(f"{m['topology']}/{m['model']}")
                    labels.append("activity:" + act)
                time.sleep(0.15)  # let the activities start
                # failing makegateway calls
                for f in case["fails"]:
                    before = set(p for p in descendants() if alive(p))
                    try:
                        if f == "dup_explicit":
                            group.makegateway("popen//id=dupx")
                            pids.append(("dupx", group["dupx"].remote_exec("import os; channel.send(os.getpid())").receive(30)))
                            group.makegateway("popen//id=dupx")
                        elif f == "future_auto":
                            nxt = "gw%d" % group._autoidcounter
                            g = group.makegateway("popen//id=" + nxt)
                            pids.append((nxt, g.remote_exec("import os; channel.send(os.getpid())").receive(30)))
                            group.makegateway("popen")
                        elif f == "unknown_type":
                            group.makegateway("carrierpigeon=home")
                        elif f == "missing_via":
                            group.makegateway("popen//via=nosuchgateway")
                        elif f == "bad_execmodel":
                            group.makegateway("popen//execmodel=nosuchmodel")
                        elif f == "missing_python":
                            group.makegateway("popen//python=/nonexistent/python3")
                        elif f == "bad_chdir":
                            group.makegateway("popen//chdir=/proc/nonexistent/dir/x")
                        labels.append("fail:" + f + ":accepted")
                    except BaseException as e:  # noqa: BLE001 - any exception type is acceptable
                        labels.append("fail:" + f + ":" + type(e).__name__)
                for m, g in zip(case["members"], list(group)):
                    pass
                for i, m in enumerate(case["members"]):
                    if m["activity"] == "just_submitted":
                        mem = [g for g in group if g.id != "base"]
                        if i < len(mem):
                            try:
                                mem[i].remote_exec("import time\ntime.sleep(0.05)")
                            except OSError:
                                pass
                t0 = time.time()
                try:
                    group.terminate(timeout=case["timeout"])
                except BaseException as e:  # noqa: BLE001
                    raise Violation("terminate.raises", f"terminate({case['timeout']}) raised {type(e).__name__}: {e} for "
                                    f"{[p[0] for p in pids]}", exc=e) from None
                took = time.time() - t0
            if wd.fired:
                raise Violation("terminate.hang", f"case did not finish within 120 s: {case}")
            bound = 6 * case["timeout"] + 3
            if took > bound:
                raise Violation("terminate.slow", f"terminate({case['timeout']}) took {took:.2f} s (> {bound:.1f} s) for "
                                f"{[p[0] for p in pids]}")
            if len(group) != 0:
                raise Violation("terminate.group-not-empty", f"{len(group)} gateways still registered: {list(group)}")
            # every recorded worker must be gone (give the kernel a moment to deliver SIGKILL / reap)
            t_end = time.time() + 3
            while True:
                left = [(n, p) for n, p in pids if alive(p)]
                if not left or time.time() > t_end:
                    break
                time.sleep(0.05)
            if left:
                raise Violation("terminate.child-alive", f"after terminate({case['timeout']}) still running: {left}",
                                site=left[0][0].split("/")[0])
            strays = [p for p in leftovers() if alive(p)]
            if strays:
                raise Violation("terminate.stray-process", f"processes started by this case are still alive: {strays} "
                                f"(fails={case['fails']})", site=",".join(case["fails"]) or "-")
            ratio = took / bound
            labels.append("took/bound:" + ("<25%" if ratio < 0.25 else "<50%" if ratio < 0.5 else "<75%" if ratio < 0.75 else "<100%"))
            nontrivial = any(m["activity"] != "idle" for m in case["members"]) or bool(case["fails"])
            return dict(labels=sorted(set(labels)) + [f"timeout:{case['timeout']}"], nontrivial=nontrivial,
                        sample={"case": case, "took_s": round(took, 2), "workers": [p[0] for p in pids]})
        finally:
            try:
                atexit.unregister(group._cleanup_atexit)
            finally:
                kill_leftovers()


PARTS = [Terminate()]
