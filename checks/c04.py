"""C04 - connection loss at any byte never hangs or corrupts the survivor."""
from __future__ import annotations

import atexit
import itertools
import os
import signal
import time

from hypothesis import strategies as st

from vlib import convo
from vlib import detsched as D
from vlib import refcodec as R
from vlib import tree, values as V, wires
from vlib.core import Inconclusive, Part, Violation, Watchdog

PROPERTY = "C04"
RULE = (
    "(cut) a generated peer-to-survivor frame stream (DATA on 1-4 channels with generated payloads, CLOSE, "
    "CLOSE_ERROR, LAST_MESSAGE, data after a close, frames for unknown channels) rendered by the reference frame "
    "codec and cut after EVERY byte offset 0..len (exhaustive per stream, streams up to ~400 bytes), delivered with "
    "generated read chunking through the real Popen2IO or SocketIO to a real Gateway object whose channels have "
    "generated waiters: 1-2 threads blocked in receive(), waitclose() callers, callbacks with and without endmarker, "
    "channel objects kept or dropped; under the deterministic scheduler with a generated schedule per stream. "
    "(real) real popen / socket / via workers streaming a known sequence are SIGKILLed (worker, or the forwarding "
    "gateway) after a generated delay. Oracle: the reference frame parser applied to the prefix says which frames "
    "arrived completely; each waiter gets exactly the payloads of the complete DATA frames of its channel (up to its "
    "close), in order, then EOFError (or once the RemoteError of a complete CLOSE_ERROR), callbacks get their endmarker "
    "exactly once, nothing blocks (scheduler decides 'blocked forever'; real: 30 s bound), afterwards send / "
    "remote_exec / newchannel raise OSError and hasreceiver() is false. Non-trivial = cut strictly inside a frame "
    "with at least one complete frame before it and at least one blocked waiter."
)
ASSUMPTIONS = [
    "after the connection is lost waitclose() may raise EOFError even for a channel that was closed cleanly before "
    "(documented: 'EOFError is raised if the reading-connection was prematurely closed')",
    "real part: 30 s bound for waiters to return after the kill (observed: well below 1 s)",
]


def frame_streams(max_frames=10):
    payload = st.one_of(V.values(max_leaves=3), st.binary(max_size=30), st.text(max_size=10))
    chan = st.integers(0, 4)  # index into the survivor's channels; 4 = a channel id nobody has
    frame = st.one_of(
        st.tuples(st.just("data"), chan, payload), st.tuples(st.just("data"), chan, payload),
        st.tuples(st.just("data"), chan, payload),
        st.tuples(st.just("close"), chan, st.none()),
        st.tuples(st.just("close_error"), chan, st.text("abcXYZ \n", min_size=1, max_size=12)),
        st.tuples(st.just("last"), chan, st.none()),
    )
    return st.lists(frame, min_size=1, max_size=max_frames)


def waiter_configs():
    one = st.fixed_dictionaries(dict(
        kind=st.sampled_from(["recv", "recv", "callback", "callback_end", "none", "late_callback", "sender"]),
        receivers=st.integers(1, 2), waitclose=st.booleans(), dropped=st.booleans()))
    return st.lists(one, min_size=4, max_size=4)


def strategy():
    return st.fixed_dictionaries(dict(
        frames=frame_streams(), waiters=waiter_configs(),
        transport=st.sampled_from(["pipe", "socket"]),
        chunks=st.lists(st.one_of(st.integers(1, 12), st.integers(1, 200)), max_size=4),
        sparse=st.fixed_dictionaries(dict(
            pre=st.lists(st.tuples(st.integers(0, 60), st.integers(0, 5)).map(list), max_size=12),
            blk=st.lists(st.integers(0, 5), max_size=30))),
    ))


CODES = {"data": 4, "close": 5, "close_error": 6, "last": 7}


def render(frames):
    """-> (stream bytes, list of (kind, chan index, payload value, end offset))"""
    out, meta = b"", []
    for kind, ci, p in frames:
        cid = 2 * ci + 1 if ci < 4 else 2001  # the survivor allocates odd ids 1,3,5,7; 2001 belongs to nobody
        if kind == "data":
            body = R.ref_dumps(p, versioned=False)
        elif kind == "close_error":
            body = R.ref_dumps(p, versioned=False)
        else:
            body = b""
        out += R.ref_frame(CODES[kind], cid, body)
        meta.append((kind, ci, p, len(out)))
    return out, meta


def expected(meta, k):
    """what each channel index must have seen when only the first k bytes arrive"""
    exp = {ci: dict(items=[], closed=None) for ci in range(4)}
    for kind, ci, p, end in meta:
        if end > k:
            break
        if ci > 3 or exp[ci]["closed"] is not None:
            continue
        if kind == "data":
            exp[ci]["items"].append(V.fp(p))
        else:
            exp[ci]["closed"] = (kind, p)
    return exp


def run_cut(case, stream, k, sparse=None, preempt_at=(), count_lines=False, focus=None):
    tree.use()
    from execnet import gateway_base as gb
    from execnet.gateway import Gateway
    from execnet.xspec import XSpec

    s = D.Scheduler(sparse=sparse or case["sparse"], preempt_at=preempt_at)
    if preempt_at or count_lines:
        s.enable_line_tracing(focus)
    D.install_os_proxy(s)
    em = D.make_execmodel(s)
    io_a, io_b, ab, ba = wires.io_pair(s, em, em, case["transport"], None, case["chunks"], None)
    obs = dict(logs={}, after=[], blocked_at_cut=0)

    def log(key, *e):
        obs["logs"].setdefault(key, []).append(list(e))

    def outcome(fn):
        try:
            return ("item", V.fp(fn()))
        except EOFError:
            return ("eof",)
        except gb.RemoteError as e:
            return ("remote_error", str(e)[:200])
        except gb.TimeoutError:
            return ("timeout",)
        except OSError as e:
            return ("oserror", str(e)[:100])
        except D.Abort:
            raise
        except BaseException as e:  # noqa: BLE001
            return ("exc", type(e).__name__, str(e)[:200])

    def receiver(ch, key):
        while True:
            o = outcome(lambda: ch.receive(60))
            log(key, *o)
            if o[0] != "item":
                break
        for _ in range(2):
            log(key, *outcome(lambda: ch.receive(60)))
        # a thread woken by the loss immediately asks for a new channel: either refused, or that channel ends too
        o = outcome(lambda: holder["gw"].newchannel().receive(60))
        log(key + ".new", *o)

    def late_callback(ch, key):
        # registers its callback at a moment of the scheduler's choosing, possibly while the loss is being processed
        obs["logs"][key] = []
        try:
            ch.setcallback(lambda x: log(key, "endmarker") if x is END else log(key, "item", V.fp(x)), endmarker=END)
        except D.Abort:
            raise
        except BaseException as e:  # noqa: BLE001
            log(key, "setcallback-raised", type(e).__name__, str(e)[:100])

    def sender(ch, key):
        for i in range(6):
            try:
                ch.send(i)
            except OSError:
                log(key, "oserror")
                return
            except D.Abort:
                raise
            except BaseException as e:  # noqa: BLE001
                log(key, "exc", type(e).__name__, str(e)[:100])
                return
        log(key, "all-sent")

    def waitcloser(ch, key):
        o = outcome(lambda: ch.waitclose(60))
        log(key, *(("ok",) if o[0] == "item" else o))

    holder = {}

    def user():
        gw = Gateway(io_a, XSpec("popen//id=survivor"))
        holder["gw"] = gw
        wires.FakeGroup()._register(gw)
        threads = []
        chans = []
        for ci, w in enumerate(case["waiters"]):
            ch = gw.newchannel()
            chans.append(ch)
            if w["kind"] == "recv":
                for r in range(w["receivers"]):
                    threads.append(s.spawn(receiver, (ch, f"rcv{ci}.{r}"), name=f"rcv{ci}.{r}", must_finish=True))
            elif w["kind"] in ("callback", "callback_end"):
                key = f"cb{ci}"
                obs["logs"][key] = []
                if w["kind"] == "callback_end":
                    ch.setcallback(lambda x, key=key: log(key, "endmarker") if x is END else log(key, "item", V.fp(x)), endmarker=END)
                else:
                    ch.setcallback(lambda x, key=key: log(key, "item", V.fp(x)))
            elif w["kind"] == "late_callback":
                threads.append(s.spawn(late_callback, (ch, f"cb{ci}"), name=f"latecb{ci}", must_finish=True))
            elif w["kind"] == "sender":
                threads.append(s.spawn(sender, (ch, f"snd{ci}"), name=f"snd{ci}", must_finish=True))
            if w["waitclose"]:
                threads.append(s.spawn(waitcloser, (ch, f"wc{ci}"), name=f"wc{ci}", must_finish=True))
            if w["dropped"] and w["kind"] != "recv" and not w["waitclose"]:
                chans[-1] = None
            del ch
        # the peer: delivers the first k bytes of the stream, then the connection is gone
        if case["transport"] == "pipe":
            ba.buf += stream[:k]
        else:
            ba.buf += stream[:k]
        ba.wclosed = True
        ab.rclosed = True  # writes towards the dead peer fail
        gw.join(120)
        for t in threads:
            s.wait_until(lambda t=t: t.state == D.FINISHED, 120, "join-waiter")
        live = next((c for c in chans if c is not None), None)
        for name, fn in (("send", (lambda: live.send(1)) if live is not None else None),
                         ("remote_exec", lambda: gw.remote_exec("pass")), ("newchannel", gw.newchannel)):
            if fn is None:
                continue
            try:
                fn()
                obs["after"].append((name, "ok"))
            except OSError:
                obs["after"].append((name, "OSError"))
            except D.Abort:
                raise
            except BaseException as e:  # noqa: BLE001
                obs["after"].append((name, type(e).__name__))
        obs["after"].append(("hasreceiver", bool(gw.hasreceiver())))

    END = object()
    s.spawn(user, name="user", must_finish=True)
    try:
        s.run()
    finally:
        s.shutdown()
    return s, obs


def judge_cut(case, meta, k, s, obs):
    where = f"cut after byte {k}"
    for name, exc in s.unhandled():
        raise Violation("loss.thread-died", f"{where}: thread {name}: {exc!r}", exc=exc)
    exp = expected(meta, k)
    logs = obs["logs"]
    for ci, w in enumerate(case["waiters"]):
        e = exp[ci]
        err = e["closed"] is not None and e["closed"][0] == "close_error"
        if w["kind"] == "recv":
            seen = []
            n_err = 0
            for r in range(w["receivers"]):
                log = logs.get(f"rcv{ci}.{r}", [])
                items = [x[1] for x in log if x[0] == "item"]
                tail = [x for x in log if x[0] != "item"]
                if log[: len(items)] != [["item", fp] for fp in items]:
                    raise Violation("loss.item-after-end", f"{where}: channel {ci} receiver {r}: {[x[0] for x in log]}")
                bad = [x for x in tail if x[0] not in ("eof", "remote_error")]
                if bad or len(tail) != 3:
                    raise Violation("loss.receiver-outcome", f"{where}: channel {ci} receiver {r} ended with {tail}")
                n_err += sum(1 for x in tail if x[0] == "remote_error")
                pos = -1
                for fp in items:
                    idx = next((i for i in range(pos + 1, len(e["items"])) if e["items"][i] == fp), None)
                    if idx is None:
                        raise Violation("loss.corrupt-or-foreign-item", f"{where}: channel {ci} receiver {r} got an item that "
                                        f"is not a completely received payload of this channel (or out of order): {fp!r:.200}")
                    pos = idx
                seen += items
            if sorted(map(repr, seen)) != sorted(map(repr, e["items"])):
                raise Violation("loss.items", f"{where}: channel {ci}: {len(e['items'])} payloads arrived completely before the "
                                f"cut, the receivers got {len(seen)}")
            if n_err > (1 if err else 0):
                raise Violation("loss.remote-error-count", f"{where}: channel {ci}: RemoteError raised {n_err} times")
            for r in range(w["receivers"]):
                nlog = logs.get(f"rcv{ci}.{r}.new", [])
                if len(nlog) != 1 or nlog[0][0] not in ("oserror", "eof"):
                    raise Violation("loss.newchannel-during-loss", f"{where}: a thread woken by the loss called newchannel(): "
                                    f"the call or the receive() on the new channel gave {nlog} (expected OSError or EOFError)")
        elif w["kind"] == "sender":
            log = logs.get(f"snd{ci}", [])
            if len(log) != 1 or log[0][0] not in ("oserror", "all-sent"):
                raise Violation("loss.sender", f"{where}: a thread sending during the loss saw {log}")
        elif w["kind"] in ("callback", "callback_end", "late_callback"):
            log = logs.get(f"cb{ci}", [])
            want = [["item", fp] for fp in e["items"]] + ([["endmarker"]] if w["kind"] != "callback" else [])
            if log != want:
                raise Violation("loss.callback", f"{where}: channel {ci} ({'dropped' if w['dropped'] else 'alive'}) callback saw "
                                f"{[x[0] for x in log]}, expected {len(e['items'])} items"
                                f"{' then exactly one endmarker' if w['kind'] != 'callback' else ''} (kind {w['kind']})")
        if w["waitclose"]:
            log = logs.get(f"wc{ci}", [])
            if len(log) != 1 or log[0][0] not in ("ok", "eof", "remote_error"):
                raise Violation("loss.waitclose", f"{where}: channel {ci} waitclose gave {log}")
            if log[0][0] == "remote_error" and not err:
                raise Violation("loss.waitclose", f"{where}: channel {ci} waitclose raised a RemoteError nobody sent")
            if e["closed"] is None and log[0][0] != "eof":
                raise Violation("loss.waitclose-no-eof", f"{where}: channel {ci} was still open when the connection broke, "
                                f"waitclose() gave {log[0]} instead of raising EOFError")
    want_after = [x for x in obs["after"] if x[1] not in ("OSError",) and x[0] != "hasreceiver"]
    if want_after or ("hasreceiver", False) not in obs["after"]:
        raise Violation("loss.after", f"{where}: after the loss send/remote_exec/newchannel/hasreceiver gave {obs['after']}")


class Cut(Part):
    name = "cut"
    budget = {"quick": 128, "thorough": 5000}
    min_per_shard = 4

    def setup(self, ctx):
        D.preimport()
        D.selftest(30, seed=ctx.seed)

    def strategy(self, ctx):
        return strategy()

    def encode(self, case):
        if "frames_json" in case:
            return case
        c = dict(case)
        c["frames"] = [[k, ci, V.to_json(p)] for k, ci, p in case["frames"]]
        c["frames_json"] = True
        return c

    def decode(self, j):
        c = dict(j)
        c["frames"] = [(k, ci, V.from_json(p)) for k, ci, p in j["frames"]]
        c.pop("frames_json", None)
        return c

    def run(self, case, ctx):
        stream, meta = render(case["frames"])
        if len(stream) > 420:
            ctx.count("streams_over_420_bytes_skipped")
            return dict(labels=["stream-too-long"], nontrivial=False, count=0)
        ks = [case["k"]] if "k" in case else range(len(stream) + 1)
        ends = {m[3] for m in meta}
        runs = nt = 0
        viol = []
        has_waiter = any(w["kind"] == "recv" or w["waitclose"] for w in case["waiters"])
        for k in ks:
            runs += 1
            try:
                s, obs = run_cut(case, stream, k)
                judge_cut(case, meta, k, s, obs)
            except D.Deadlock as e:
                viol.append((Violation("loss.blocks-forever", f"cut after byte {k}: blocked {e.blocked}\n" + "\n".join(
                    f"--- {n}\n{v}" for n, v in list(e.stacks.items())[:3])), dict(case, k=k)))
                continue
            except D.StepBudget:
                # not a time limit: a deterministic count of scheduler operations, ~100x what any of these runs needs
                viol.append((Violation("loss.no-progress", f"cut after byte {k}: the survivor's threads were still running after "
                                       f"400000 scheduler operations (a run of this size needs a few thousand): livelock"),
                             dict(case, k=k)))
                continue
            except Violation as v:
                viol.append((v, dict(case, k=k)))
                continue
            if k not in ends and k > min(ends) and has_waiter:
                nt += 1
        kinds = sorted({"frame:" + f[0] for f in case["frames"]} | {"waiter:" + w["kind"] for w in case["waiters"]})
        if any(w["dropped"] and w["kind"] != "recv" and not w["waitclose"] for w in case["waiters"]):
            kinds.append("dropped-channel")
        seen = {}
        uniq = []
        for v, c in viol:
            if v.bucket not in seen:
                seen[v.bucket] = 1
                uniq.append((v, c))
        return dict(count=runs, nontrivial_count=nt, violations=uniq[:4], nontrivial=True, labels=[case["transport"]] + kinds,
                    sample={"stream_bytes": len(stream), "cuts": runs, "frames": [[f[0], f[1]] for f in case["frames"]],
                            "waiters": case["waiters"]})


FOCUS = {"_finished_receiving", "_local_close", "_no_longer_opened", "setcallback", "_thread_receiver", "new",
         "newchannel", "_terminate_execution", "receive", "waitclose", "_getremoteerror", "_local_receive", "send", "_send"}


class CutFocused(Part):
    """for small streams and three cut offsets each: EVERY single preemption at a source line inside the
    connection-loss / callback-registration functions x every alternative thread (delay and yield)"""

    name = "cut-focused"
    budget = {"quick": 32, "thorough": 250}
    min_per_shard = 2

    def setup(self, ctx):
        D.preimport()

    def strategy(self, ctx):
        one = st.fixed_dictionaries(dict(
            kind=st.sampled_from(["recv", "callback_end", "late_callback", "late_callback", "sender"]),
            receivers=st.integers(1, 2), waitclose=st.booleans(), dropped=st.booleans()))
        return st.fixed_dictionaries(dict(
            frames=frame_streams(max_frames=4), waiters=st.lists(one, min_size=4, max_size=4),
            transport=st.sampled_from(["pipe", "socket"]), chunks=st.lists(st.integers(1, 200), max_size=2),
            sparse=st.just(dict(pre=[], blk=[])), cuts=st.lists(st.integers(0, 1000), min_size=3, max_size=3),
        ))

    encode = Cut.encode
    decode = Cut.decode

    def run(self, case, ctx):
        from vlib import explore

        stream, meta = render(case["frames"])
        if "single" in case:
            k, line, alt = case["single"]
            s, obs = run_cut(case, stream, k, sparse=explore.line_sparse(alt), preempt_at=(line,), focus=FOCUS)
            judge_cut(case, meta, k, s, obs)
            return dict(nontrivial=True)
        runs_total, viol = 0, []
        for frac, order in [(f, o) for f in case["cuts"] for o in (0, 1)]:
            k = frac * len(stream) // 1000
            try:
                s0, obs = run_cut(case, stream, k, sparse=explore.base_sparse(order), count_lines=True, focus=FOCUS)
                judge_cut(case, meta, k, s0, obs)
            except D.Deadlock as e:
                raise Violation("loss.blocks-forever", f"cut after byte {k}: {e.blocked}") from None
            n = s0.lines

            def one(line, alt, k=k):
                try:
                    s, obs = run_cut(case, stream, k, sparse=explore.line_sparse(alt), preempt_at=(line,), focus=FOCUS)
                except D.Deadlock as e:
                    v = Violation("loss.blocks-forever", f"cut after byte {k}: blocked {e.blocked}")
                    raise v from None
                except D.StepBudget:
                    raise Violation("loss.no-progress", f"cut after byte {k}: still running after 400000 scheduler "
                                    f"operations: livelock") from None
                try:
                    judge_cut(case, meta, k, s, obs)
                except Violation as v:
                    v.sched = s
                    raise
                return s

            runs, found, inc = explore.single_preemptions(one, n, explore.plan_stride(n, ctx.tier, 250), ctx.seed,
                                                          max_runs=None if ctx.tier == "thorough" else 300, order=order)
            runs_total += runs
            viol += [(v, dict(case, single=[k, la[0], la[1]])) for v, la in found]
        seen, uniq = set(), []
        for v, c in viol:
            if v.bucket not in seen:
                seen.add(v.bucket)
                uniq.append((v, c))
        return dict(count=runs_total, nontrivial_count=runs_total, violations=uniq[:3], nontrivial=True,
                    labels=sorted({"waiter:" + w["kind"] for w in case["waiters"]}),
                    sample={"stream_bytes": len(stream), "runs": runs_total})


# ----------------------------------------------------------------------------- real kills

STREAM_BODY = """
import os
channel.send(os.getpid())
n = 0
while True:
    channel.send((n, "x" * (n % 50), n * 2.5))
    n += 1
"""


class RealKill(Part):
    name = "real"
    budget = {"quick": 40, "thorough": 1500}
    max_shards = 8
    min_per_shard = 5

    def setup(self, ctx):
        execnet = tree.use()
        self.execnet = execnet

    def strategy(self, ctx):
        return st.fixed_dictionaries(dict(
            topology=st.sampled_from(["popen", "popen", "socket", "via", "via-kill-forwarder"]),
            delay_ms=st.one_of(st.integers(0, 30), st.integers(0, 400)),
            receivers=st.integers(1, 3), waitclose=st.booleans(), callback=st.booleans(),
            execmodel=st.sampled_from(["thread", "main_thread_only"]),
        ))

    def run(self, case, ctx):
        import threading

        group = self.execnet.Group()
        try:
            topo = case["topology"]
            if topo == "popen":
                gw = group.makegateway(f"popen//execmodel={case['execmodel']}")
                base = None
            else:
                base = group.makegateway("popen//id=base")
                if topo == "socket":
                    gw = group.makegateway("socket//installvia=base//id=w")
                else:
                    gw = group.makegateway(f"popen//via=base//id=w//execmodel={case['execmodel']}")
            ch = gw.remote_exec(STREAM_BODY)
            wpid = ch.receive(30)
            victim = wpid
            if topo == "via-kill-forwarder":
                pc = base.remote_exec("import os; channel.send(os.getpid())")
                victim = pc.receive(30)
            cbch = gw.remote_exec("for i in range(10**9): channel.send(i)") if case["callback"] else None
            cblog = []
            if cbch is not None:
                cbch.setcallback(cblog.append, endmarker="END")
            logs = {i: [] for i in range(case["receivers"])}
            wclog = []

            def receiver(i):
                while True:
                    try:
                        logs[i].append(("item", ch.receive(60)))
                    except EOFError:
                        logs[i].append(("eof",))
                        break
                    except BaseException as e:  # noqa: BLE001
                        logs[i].append(("exc", type(e).__name__, str(e)[:100]))
                        break

            def waiter():
                try:
                    ch.waitclose(60)
                    wclog.append("ok")
                except EOFError:
                    wclog.append("eof")
                except BaseException as e:  # noqa: BLE001
                    wclog.append(type(e).__name__)

            ts = [threading.Thread(target=receiver, args=(i,), daemon=True) for i in range(case["receivers"])]
            if case["waitclose"]:
                ts.append(threading.Thread(target=waiter, daemon=True))
            for t in ts:
                t.start()
            time.sleep(case["delay_ms"] / 1000.0)
            t_kill = time.time()
            os.kill(victim, signal.SIGKILL)
            for t in ts:
                t.join(max(0.1, 30 - (time.time() - t_kill)))
            hung = [t for t in ts if t.is_alive()]
            if hung:
                raise Violation("real.blocks", f"{topo}: {len(hung)} waiter(s) still blocked 30 s after the peer was killed",
                                site=topo)
            took = time.time() - t_kill
            seen = []
            for i, log in logs.items():
                if not log or log[-1] != ("eof",):
                    raise Violation("real.receiver-outcome", f"{topo}: receiver ended with {log[-2:]}", site=topo)
                items = [x[1] for x in log[:-1]]
                if any(x[0] != "item" for x in log[:-1]):
                    raise Violation("real.receiver-outcome", f"{topo}: {log[-3:]}", site=topo)
                ns = [it[0] for it in items]
                if ns != sorted(ns) or any(it != (it[0], "x" * (it[0] % 50), it[0] * 2.5) for it in items):
                    raise Violation("real.corrupt-item", f"{topo}: receiver {i} got a corrupt or reordered item", site=topo)
                seen += ns
            if sorted(seen) != list(range(len(seen))):
                raise Violation("real.gap", f"{topo}: the received items are not a gap-free prefix of the stream: "
                                f"{len(seen)} items, max {max(seen) if seen else None}", site=topo)
            if case["waitclose"] and wclog not in (["eof"], ["ok"]):
                raise Violation("real.waitclose", f"{topo}: waitclose gave {wclog}", site=topo)
            # give the receiver thread a moment to finish its clean-up, then the gateway must refuse work
            gw.join(10)
            after = []
            for name, fn in (("send", lambda: ch.send(1)), ("remote_exec", lambda: gw.remote_exec("pass")),
                             ("newchannel", gw.newchannel)):
                try:
                    fn()
                    after.append((name, "ok"))
                except OSError:
                    after.append((name, "OSError"))
                except BaseException as e:  # noqa: BLE001
                    after.append((name, type(e).__name__))
            if any(x[1] != "OSError" for x in after) or gw.hasreceiver():
                raise Violation("real.after", f"{topo}: after the kill {after}, hasreceiver={gw.hasreceiver()}", site=topo)
            if cbch is not None:
                t_end = time.time() + 10
                while "END" not in cblog and time.time() < t_end:
                    time.sleep(0.01)
                if cblog.count("END") != 1 or cblog[-1] != "END" or cblog[:-1] != list(range(len(cblog) - 1)):
                    raise Violation("real.callback", f"{topo}: callback log ends {cblog[-3:]} with {cblog.count('END')} endmarkers",
                                    site=topo)
            return dict(labels=[topo, case["execmodel"], "items:%d" % min(len(seen), 1000 if len(seen) > 1000 else len(seen) // 100 * 100)],
                        nontrivial=len(seen) > 0, sample={"case": case, "items_before_kill": len(seen), "wakeup_s": round(took, 3)})
        finally:
            try:
                with Watchdog(40):
                    group.terminate(timeout=1.0)
            except BaseException:  # noqa: BLE001
                pass
            finally:
                atexit.unregister(group._cleanup_atexit)
                from vlib.core import kill_leftovers

                kill_leftovers()  # whatever survived this case must not disturb the next one


PARTS = [Cut(), CutFocused(), RealKill()]
