"""C09 - WorkerPool runs every accepted task exactly once and reports truthfully."""
from __future__ import annotations

from hypothesis import strategies as st

from vlib import detsched as D
from vlib import tree, wires
from vlib.core import Inconclusive, Part, Violation

PROPERTY = "C09"
RULE = (
    "Generated pool scenarios executed on the real WorkerPool under the deterministic scheduler: backend in "
    "{thread, main_thread_only}, with/without integrated primary thread, 1-3 spawner threads x 1-4 tasks (return / "
    "raise / block until released), trigger_shutdown or terminate racing with the spawners or issued after them, 0-2 "
    "waitall callers (with and without timeout), Reply.get(timeout) on blocked tasks; main_thread_only pools with a "
    "primary thread get one spawner that submits the next task only after the previous function returned (the "
    "gateway's protocol). Schedules: generated dense choice lists plus up to 3 line-level preemptions; part "
    "'exhaustive' enumerates EVERY single line-preemption (line x alternative thread) of small scenarios. Part "
    "'gateway' runs remote_exec immediately followed by gw.exit() on an in-process gateway pair. "
    "Non-trivial = a shutdown raced with the spawners (early shutdown) or at least 2 context switches happened "
    "before the last spawn returned."
)
ASSUMPTIONS = [
    "the scheduler serialises real threads at real primitive operations; its primitives are differentially tested "
    "against threading/queue at the start of every shard (vlib/detsched.py selftest)",
    "virtual time: a timed wait expires only when no thread is runnable",
    "un-gated back-to-back spawns on a main_thread_only pool with primary thread are outside the domain (property text)",
]

TASK = st.one_of(st.tuples(st.just("ret"), st.integers(0, 99)), st.tuples(st.just("raise"), st.integers(0, 99)),
                 st.tuples(st.just("block"), st.integers(0, 99)), st.tuples(st.just("ret"), st.integers(0, 99)))


def scenarios(max_tasks=4, max_spawners=3, max_choices=120, preempts=3):
    def build(t):
        backend, primary, spawners, early, waitalls, getters, final, choices, pre = t
        if backend == "main_thread_only" and primary:
            spawners = [[x for sp in spawners for x in sp][:max_tasks + 1]]  # one gated spawner
        return dict(backend=backend, primary=primary, spawners=[[list(x) for x in sp] for sp in spawners], early=early,
                    waitalls=waitalls, getters=getters, final=final, choices=choices, preempt=pre)

    return st.tuples(
        st.sampled_from(["thread", "main_thread_only"]), st.booleans(),
        st.lists(st.lists(TASK, min_size=1, max_size=max_tasks), min_size=1, max_size=max_spawners),
        st.sampled_from(["none", "none", "trigger", "terminate"]),
        st.lists(st.one_of(st.none(), st.sampled_from([0.5, 3.0])), max_size=2),
        st.booleans(),
        st.sampled_from(["trigger+waitall", "terminate"]),
        st.lists(st.integers(0, 5), max_size=max_choices),
        st.lists(st.integers(0, 999), max_size=preempts),
    ).map(build)


class TaskErr(Exception):
    pass


def run_scenario(sc, preempt_at=(), trace_lines=False, record=False):
    """-> (sched, obs) ; obs holds everything the oracle needs.  Raises D.Deadlock / D.StepBudget."""
    tree.use()
    from execnet import gateway_base as gb

    s = D.Scheduler(sc["choices"], preempt_at=preempt_at, record=record)
    if trace_lines or preempt_at:
        s.enable_line_tracing()
    em = D.make_execmodel(s, sc["backend"])
    pool = gb.WorkerPool(em, hasprimary=sc["primary"])
    gated = sc["backend"] == "main_thread_only" and sc["primary"]
    obs = dict(tasks={}, waitall=[], errors=[], shutdown_called=False, primary_left=False, final=None, getters=[],
               quiesced=[])  # scheduler steps at which a wait that began after the shutdown reported "nothing unfinished"
    tasks = obs["tasks"]
    release, fn_returned, getter_done = {}, {}, {}
    for si, sp in enumerate(sc["spawners"]):
        for ti, (kind, val) in enumerate(sp):
            key = f"{si}.{ti}"
            tasks[key] = dict(kind=kind, val=val, runs=0, accepted=None, accepted_step=None, done=False, reply=None,
                              exc=None, result=None)
            fn_returned[key] = D.SEvent(s)
            if kind == "block":
                release[key] = D.SEvent(s)
                getter_done[key] = D.SEvent(s)

    def body(key):
        t = tasks[key]
        t["runs"] += 1
        t["start_step"] = s.steps
        try:
            if t["kind"] == "block":
                release[key].wait()
            if t["kind"] == "raise":
                t["exc"] = TaskErr(f"boom-{t['val']}")
                raise t["exc"]
            return ("value", t["val"], key)
        finally:
            t["done"] = True
            fn_returned[key].set()

    spawner_done = [D.SEvent(s) for _ in sc["spawners"]]

    def spawner(si):
        try:
            for ti in range(len(sc["spawners"][si])):
                key = f"{si}.{ti}"
                t = tasks[key]
                was_shut = obs["shutdown_called"]
                began_after_shutdown = bool(obs.get("shutdown_returned"))
                try:
                    reply = pool.spawn(body, key)
                except ValueError:
                    t["accepted"] = False
                    if not was_shut and not obs["shutdown_called"]:
                        obs["errors"].append(("spawn-refused-before-shutdown", key))
                    continue
                except BaseException as e:  # noqa: BLE001
                    if isinstance(e, D.Abort):
                        raise
                    obs["errors"].append(("spawn-raised", key, repr(e)))
                    continue
                t["accepted"], t["reply"], t["accepted_step"] = True, reply, s.steps
                obs["last_spawn_switches"] = s.switches
                if began_after_shutdown:
                    obs["errors"].append(("spawn-accepted-after-shutdown", key))
                if gated:
                    fn_returned[key].wait()
        finally:
            spawner_done[si].set()

    def primary():
        pool.integrate_as_primary_thread()
        obs["primary_left"] = True
        if not obs["shutdown_called"]:
            obs["errors"].append(("primary-left-before-shutdown",))

    def shutdowner(how):
        obs["shutdown_called"] = True
        if how == "trigger":
            pool.trigger_shutdown()
            obs["shutdown_returned"] = True
        else:
            r = pool.terminate(timeout=None)
            if r:
                obs["quiesced"].append(s.steps)
            obs["shutdown_returned"] = True
            check_waitall_true("early-terminate", r, begin_step)

    begin_step = 0

    def check_waitall_true(who, r, began):
        if r:
            unfinished = [k for k, t in tasks.items() if t["accepted"] and t["accepted_step"] is not None
                          and t["accepted_step"] < began and not t["done"]]
            if unfinished:
                obs["errors"].append(("waitall-true-with-unfinished", who, unfinished))

    def waitaller(timeout):
        began = s.steps
        after_shutdown = bool(obs.get("shutdown_returned"))
        r = pool.waitall(timeout)
        if r and after_shutdown:
            obs["quiesced"].append(s.steps)
        obs["waitall"].append((timeout, r))
        check_waitall_true("waitall", r, began)
        if timeout is None and not r:
            obs["errors"].append(("waitall-none-returned-false",))

    def getter(key):
        t = tasks[key]
        try:
            # wait until the spawner has the reply (or gave up)
            s.wait_until(lambda: t["accepted"] is not None, None, "getter")
            if t["accepted"]:
                try:
                    r = t["reply"].get(timeout=0.5)
                    obs["getters"].append((key, "value"))
                    if r != ("value", t["val"], key):
                        obs["errors"].append(("get-wrong-value", key, repr(r)))
                except OSError:
                    obs["getters"].append((key, "timeout"))
                    if t["done"]:
                        obs["errors"].append(("get-timeout-although-finished", key))
                except BaseException as e:  # noqa: BLE001
                    if isinstance(e, D.Abort):
                        raise
                    obs["errors"].append(("get-raised", key, repr(e)))
        finally:
            getter_done[key].set()

    def releaser():
        for key in sorted(release):
            if sc["getters"]:
                getter_done[key].wait()
            release[key].set()

    def main():
        for e in spawner_done:
            e.wait()
        obs["shutdown_called"] = True
        if sc["final"] == "terminate":
            began = s.steps
            r = pool.terminate(timeout=None)
            if r:
                obs["quiesced"].append(s.steps)
            obs["shutdown_returned"] = True
            obs["final"] = r
            check_waitall_true("final-terminate", r, began)
        else:
            pool.trigger_shutdown()
            obs["shutdown_returned"] = True
            began = s.steps
            r = pool.waitall(None)
            if r:
                obs["quiesced"].append(s.steps)
            obs["final"] = r
            check_waitall_true("final-waitall", r, began)
        # truthful replies
        for key, t in tasks.items():
            if not t["accepted"]:
                continue
            try:
                r = t["reply"].get(timeout=5.0)
                if t["kind"] == "raise":
                    obs["errors"].append(("get-returned-instead-of-raising", key, repr(r)))
                elif r != ("value", t["val"], key):
                    obs["errors"].append(("get-wrong-value", key, repr(r)))
            except TaskErr as e:
                if e is not t["exc"]:
                    obs["errors"].append(("get-raised-other-exception-object", key))
            except OSError:
                obs["errors"].append(("reply-never-ready", key))
            except BaseException as e:  # noqa: BLE001
                if isinstance(e, D.Abort):
                    raise
                obs["errors"].append(("get-raised", key, repr(e)))
        try:
            pool.spawn(body, "late")
            obs["errors"].append(("spawn-after-shutdown-accepted",))
        except ValueError:
            pass
        except KeyError:
            obs["errors"].append(("spawn-after-shutdown-accepted",))

    if sc["primary"]:
        s.spawn(primary, name="primary", must_finish=True)
    for si in range(len(sc["spawners"])):
        s.spawn(spawner, (si,), name=f"spawner{si}", must_finish=True)
    if sc["early"] != "none":
        s.spawn(shutdowner, (sc["early"],), name="shutdowner", must_finish=True)
    for i, to in enumerate(sc["waitalls"]):
        s.spawn(waitaller, (to,), name=f"waitall{i}", must_finish=True)
    if sc["getters"]:
        for key in sorted(release):
            s.spawn(getter, (key,), name="getter-" + key, must_finish=True)
    if release:
        s.spawn(releaser, name="releaser", must_finish=True)
    s.spawn(main, name="main", must_finish=True)
    try:
        s.run()
    finally:
        s.shutdown()
    return s, obs


def judge(sc, s, obs):
    for name, exc in s.unhandled():
        raise Violation("pool.thread-died", f"thread {name}: {exc!r}", exc=exc)
    for key, t in obs["tasks"].items():
        if t["accepted"] and t["runs"] != 1:
            raise Violation("pool.accepted-task-ran-%s-times" % ("0" if t["runs"] == 0 else "n"),
                            f"task {key} accepted by spawn() ran {t['runs']} times")
        if t["accepted"] is False and t["runs"] != 0:
            raise Violation("pool.refused-task-ran", f"task {key} refused with ValueError but ran")
    if obs["errors"]:
        e = obs["errors"][0]
        raise Violation("pool." + e[0], repr(obs["errors"][:4]))
    if obs.get("quiesced"):
        # once the pool is shut down AND a wait has reported that nothing is unfinished, nothing may start any more:
        # acceptance is atomic with the shutdown flag, so an accepted task was in the running set before that wait
        q = min(obs["quiesced"])
        late = [k for k, t in obs["tasks"].items() if t.get("start_step") is not None and t["start_step"] > q]
        if late:
            raise Violation("pool.task-started-after-quiescence", f"tasks {late} started running after terminate()/waitall() on "
                            f"the shut-down pool had returned True (step {q}; starts at "
                            f"{[obs['tasks'][k]['start_step'] for k in late]})")
    if sc["primary"] and not obs["primary_left"]:
        raise Violation("pool.primary-stuck", "integrate_as_primary_thread did not return after shutdown")
    if obs["final"] is not True:
        raise Violation("pool.final-wait-false", f"final wait returned {obs['final']!r} with everything released")


def describe_deadlock(e):
    return f"blocked: {e.blocked}\n" + "\n".join(f"--- {k}\n{v}" for k, v in list(e.stacks.items())[:4])


def run_and_judge(sc, preempt_at=(), count_lines=False):
    try:
        s, obs = run_scenario(sc, preempt_at=preempt_at, trace_lines=count_lines)
    except D.Deadlock as e:
        lost = [b for b in e.blocked]
        raise Violation("pool.blocks-forever", describe_deadlock(e), site=",".join(sorted({str(w) for _, w in lost}))) from None
    except D.StepBudget:
        raise Inconclusive("step budget") from None
    judge(sc, s, obs)
    return s, obs


class PoolPart(Part):
    name = "pool"
    budget = {"quick": 6000, "thorough": 300000}

    def setup(self, ctx):
        D.preimport()
        D.selftest(60, seed=ctx.seed)

    def strategy(self, ctx):
        return scenarios()

    def run(self, sc, ctx):
        pre = ()
        if sc["preempt"]:
            s0, _ = run_and_judge(dict(sc), count_lines=True)
            n = max(1, s0.lines)
            pre = sorted({1 + (f * n) // 1000 for f in sc["preempt"]})
        s, obs = run_and_judge(sc, preempt_at=pre)
        early = sc["early"] != "none"
        raced = early or obs.get("last_spawn_switches", 0) >= 2
        labels = [sc["backend"], "primary" if sc["primary"] else "noprimary", "early:" + sc["early"], "final:" + sc["final"]]
        if pre:
            labels.append("line-preempt")
        if s.preempt_fired:
            labels.append("preempt-fired")
        if any(k == "timeout" for _, k in obs["getters"]):
            labels.append("get-timeout-observed")
        if any(t["accepted"] is False for t in obs["tasks"].values()):
            labels.append("spawn-refused")
        if s.timeouts_fired:
            labels.append("virtual-timeout")
        return dict(labels=labels, nontrivial=raced)


class Exhaustive(Part):
    """every single line-level preemption of small scenarios (complete per scenario)"""

    name = "exhaustive"
    budget = {"quick": 48, "thorough": 1600}
    min_per_shard = 3

    def setup(self, ctx):
        D.preimport()

    def strategy(self, ctx):
        return scenarios(max_tasks=2, max_spawners=2, max_choices=12, preempts=0)

    def encode(self, case):
        return case

    def run(self, sc, ctx):
        single = sc.get("single")
        if single is not None:  # replay of one enumerated run
            sc2 = dict(sc, choices=sc["choices"] + [single[1]])
            run_and_judge(sc2, preempt_at=(single[0],))
            return dict(nontrivial=True)
        s0, _ = run_and_judge(dict(sc), count_lines=True)
        n = s0.lines
        if n > 700:
            ctx.count("scenarios_over_700_lines_skipped")
            return dict(labels=["too-long"], nontrivial=False, count=0)
        nthreads = len(s0.threads)
        viol = []
        runs = 0
        for line in range(1, n + 1):
            for alt in range(min(3, max(1, nthreads - 1))):
                # the forced choice is appended at the position where the preemption consumes it: choices are
                # consumed in order, so give every later choice the same alternative
                sc2 = dict(sc, choices=list(sc["choices"]) + [alt] * 4)
                runs += 1
                try:
                    run_and_judge(sc2, preempt_at=(line,))
                except Violation as v:
                    viol.append((v, dict(sc, single=[line, alt], choices=list(sc["choices"]) + [alt] * 3)))
                except Inconclusive:
                    ctx.count("inconclusive_runs")
        return dict(count=runs, nontrivial_count=runs, violations=viol[:3], nontrivial=True,
                    labels=[sc["backend"], "primary" if sc["primary"] else "noprimary"],
                    sample={"scenario": sc, "lines": n, "runs": runs})


class GatewayExit(Part):
    """remote_exec immediately followed by gw.exit(): the accepted body must run, no escalation"""

    name = "gateway"
    budget = {"quick": 800, "thorough": 40000}

    def setup(self, ctx):
        D.preimport()

    def strategy(self, ctx):
        return st.fixed_dictionaries(dict(
            backend=st.sampled_from(["thread", "main_thread_only"]),
            nexec=st.integers(1, 3),
            choices=st.lists(st.integers(0, 4), max_size=150),
            transport=st.sampled_from(["pipe", "socket"]),
        ))

    def run(self, case, ctx):
        s = D.Scheduler(case["choices"])
        D.install_os_proxy(s)
        pair = wires.InprocPair(s, backend_b=case["backend"], transport=case["transport"])
        import sys
        import types

        reg = sys.modules.setdefault("_verif_c09_registry", types.ModuleType("_verif_c09_registry"))
        reg.ran = []
        obs = {}

        def user():
            gw = pair.make_gateway(wires.FakeGroup())
            chans = []
            n = case["nexec"] if case["backend"] == "thread" else 1
            for i in range(n):
                chans.append(gw.remote_exec(f"import sys; sys.modules['_verif_c09_registry'].ran.append({i})"))
            gw.exit()
            gw.join(60)
            obs["n"] = n

        pair.start_worker()
        s.spawn(user, name="user", must_finish=True)
        try:
            s.run()
        except D.Deadlock as e:
            raise Violation("gateway.blocks-forever", describe_deadlock(e)) from None
        except D.StepBudget:
            raise Inconclusive("steps") from None
        finally:
            s.shutdown()
        for name, exc in s.unhandled():
            raise Violation("gateway.thread-died", f"{name}: {exc!r}", exc=exc)
        if sorted(reg.ran) != list(range(obs["n"])):
            raise Violation("gateway.accepted-exec-lost", f"{obs['n']} remote_exec calls were sent before exit(), "
                            f"bodies that ran: {sorted(reg.ran)}; escalations {s.escalations}, virtual time {s.now}")
        if s.escalations:
            raise Violation("gateway.escalation", f"worker escalated to {s.escalations} although every body finished")
        return dict(labels=[case["backend"], case["transport"], f"nexec:{obs['n']}"], nontrivial=s.switches >= 2)


PARTS = [PoolPart(), Exhaustive(), GatewayExit()]
