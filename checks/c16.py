"""C16 - every transport is observationally equivalent for channel programs."""
from __future__ import annotations

import atexit
import itertools
import sys
import time

from hypothesis import strategies as st

from vlib import convo, inproc, templates as TP, tree
from vlib.core import Part, Violation, Watchdog, kill_leftovers

PROPERTY = "C16"
RULE = (
    "Generated channel programs built from the deterministic (single sender / single consumer per direction) variants "
    "of the C02 (items of arbitrary type and 0..300 KB in both directions, sub-channels passed bare or nested, "
    "callbacks), C07 (raising bodies and raising callbacks) and C10 (receive-then-callback, endmarker, close/end/raise) "
    "conversation templates are executed with the SAME program on a direct popen gateway (reference) and on "
    "popen//python=, socket//installvia and popen//via gateways, for the remote execmodels thread, main_thread_only "
    "and gevent (socket: thread). Gateways are reused for 25 programs and then recycled. Oracle: every run satisfies "
    "its own transcript oracle, and the normalised transcripts (item fingerprints, outcome kinds, last line of "
    "remote error texts, endmarkers, close observations - per actor log, no cross-actor timing, channel ids stripped) "
    "are identical to the reference transport. The control path (terminate reaching proxied busy workers) is part of "
    "C05. Non-trivial = a payload over 64 KB or a sub-channel / callback / failing conversation. Part 'exitdrain': a "
    "body that keeps sending n items (1 B - 70 KB, generated pacing) while the initiator calls gw.exit(); the items and "
    "the end observed afterwards through receive() or a callback must be identical on popen, via and socket gateways "
    "(fresh gateways per case); non-trivial = at least 2 items under way."
)
ASSUMPTIONS = [
    "only schedule-independent programs are compared (one sender and one consumer per direction); racy outcomes such "
    "as sends after a remote close are not part of these templates",
    "gevent programs use greenlet actors started through the worker's own execmodel",
]

_pid = itertools.count(1)
MODELS = ["thread", "main_thread_only", "gevent"]


def normalise(res):
    out = {}
    for side in ("a", "b"):
        for key, log in (res[side] or {}).items():
            norm = []
            for e in log:
                e = list(e)
                if e[0] in ("newchannel", "recv_chan", "remote_exec") and len(e) > 2:
                    e = e[:2]
                elif e[0] == "remote_error":
                    e = ["remote_error", e[1].strip().splitlines()[-1] if e[1].strip() else ""]
                elif e[0] == "waitclose" and len(e) > 3 and e[2] == "remote_error":
                    e = e[:3] + [e[3].strip().splitlines()[-1] if e[3].strip() else ""]
                elif e[0] == "oserror":
                    e = ["oserror"]
                elif e[0] == "send":
                    # whether a send that races with a remote close/error still succeeds is timing, not transport; where
                    # a send must succeed the per-run oracle says so
                    e = ["send"]
                norm.append(e)
            out[key] = norm
    return out


def programs(max_blob):
    c02 = TP.c02_params(max_items=4, max_blob=max_blob, allow_threads=False)
    c07 = TP.c07_params().map(lambda p: dict(p, consumer="recv", dropped=False))
    c10 = st.one_of(TP.c10_params(), TP.c10_params(rich=True))
    conv = st.one_of(c02.map(lambda p: ["c02", p]), c02.map(lambda p: ["c02", p]), c07.map(lambda p: ["c07", p]),
                     c10.map(lambda p: ["c10", p]))
    return st.fixed_dictionaries(dict(convs=st.lists(conv, min_size=1, max_size=3), model=st.sampled_from(MODELS)))


def build(case, sequential):
    convs, checks = [], []
    for k, (kind, p) in enumerate(case["convs"]):
        if kind == "c02":
            a_ops, _, ex = TP.c02_conversation(k, p)
            checks += [("dir", e) for e in ex]
        elif kind == "c07":
            a_ops, ex = TP.c07_conversation(k, p)
            checks.append(("c07", ex))
        else:
            a_ops, ex = TP.c10_conversation(k, p)
            checks.append(("c10", ex))
        if sequential:
            a_ops = a_ops + [["wait_idle"]]
        convs.append({"id": k, "a": a_ops})
    return {"convs": convs, "sequential": sequential}, checks


class Equivalence(Part):
    name = "equivalence"
    budget = {"quick": 400, "thorough": 20000}
    max_shards = 8
    min_per_shard = 6

    def setup(self, ctx):
        self.execnet = tree.use()
        self.py = sys.executable
        self.n = 0
        self.broken = None
        self._mk()

    def _mk(self):
        with Watchdog(120) as wd:
            try:
                self.group = self.execnet.Group()
                self.group.makegateway("popen//id=base")
                self.gws = {}
                for m in MODELS:
                    self.gws[("popen", m)] = self.group.makegateway(f"popen//execmodel={m}//id=popen-{m}")
                    self.gws[("python", m)] = self.group.makegateway(f"popen//python={self.py}//execmodel={m}//id=python-{m}")
                    self.gws[("via", m)] = self.group.makegateway(f"popen//via=base//execmodel={m}//id=via-{m}")
                self.gws[("socket", "thread")] = self.group.makegateway("socket//installvia=base//id=socket-thread")
            except BaseException as e:  # noqa: BLE001
                self.broken = f"creating the gateways failed: {type(e).__name__}: {e}"
        if wd.fired:
            self.broken = "creating the gateways did not finish within 120 s"

    def _drop(self):
        try:
            with Watchdog(40):
                self.group.terminate(timeout=2.0)
        except BaseException:  # noqa: BLE001
            pass
        finally:
            atexit.unregister(self.group._cleanup_atexit)
            kill_leftovers()

    def teardown(self, ctx):
        self._drop()

    def strategy(self, ctx):
        return programs(300000 if ctx.tier == "quick" else 8000000)

    def run(self, case, ctx):
        if self.broken:
            if ctx.extra.get("broken_reported"):
                return dict(labels=["skipped:gateways-broken"], nontrivial=False, count=0)
            ctx.count("broken_reported")
            raise Violation("equivalence.gateway-creation", self.broken)
        if ctx.extra.get("hangs", 0) >= 2:
            ctx.count("skipped_after_hang_fuse")
            return dict(labels=["skipped:fuse"], nontrivial=False, count=0)
        self.n += 1
        if self.n % 25 == 0:
            self._drop()
            self._mk()
        m = case["model"]
        sequential = m == "main_thread_only"
        program, checks = build(case, sequential)
        transports = ["popen", "python", "via"] + (["socket"] if m == "thread" else [])
        ref = None
        try:
            for t in transports:
                gw = self.gws[(t, m)]
                with Watchdog(150) as wd:
                    res = convo.run_a(gw, f"c16-{ctx.shard}-{next(_pid)}", program, inproc.CONVO_SRC)
                if wd.fired:
                    ctx.count("hangs")
                    raise Violation("equivalence.hang", f"{t}/{m}: program did not finish within 150 s", site=t)
                where = f"{t}/{m}"
                try:
                    TP.check_actor_health(res, "equivalence")
                    if res["report"] != "ok":
                        raise Violation("equivalence.report-failed", res["report"])
                    for kind, ex in checks:
                        if kind == "dir":
                            TP.check_direction(res, ex, "equivalence")
                        elif kind == "c07":
                            TP.check_c07(res, ex, "equivalence")
                        else:
                            TP.check_c10(res, ex, "equivalence")
                except Violation as v:
                    raise Violation(v.clause, f"{where}: {v.detail}", site=t) from None
                if not gw.hasreceiver():
                    raise Violation("equivalence.gateway-dead", f"{where}: gateway no longer receive-live", site=t)
                norm = normalise(res)
                if ref is None:
                    ref = norm
                elif norm != ref:
                    key = next((k for k in sorted(set(ref) | set(norm)) if ref.get(k) != norm.get(k)), None)
                    a, b = ref.get(key), norm.get(key)
                    i = next((j for j in range(min(len(a or []), len(b or []))) if a[j] != b[j]), min(len(a or []), len(b or [])))
                    raise Violation("equivalence.transcripts-differ",
                                    f"{where} vs popen/{m}: log {key!r} differs at entry {i}: popen {str((a or [])[i:i+2])[:200]} / "
                                    f"{t} {str((b or [])[i:i+2])[:200]}", site=t)
        except Violation:
            self._drop()
            self._mk()
            raise
        big = "blob" in str(case["convs"]) and any(_big(p) for k, p in case["convs"] if k == "c02")
        rich = any(k != "c02" or p["sub"] or p["kind_a"] == "callback" or p["kind_b"] == "callback" for k, p in case["convs"])
        return dict(labels=["model:" + m] + sorted({"conv:" + k for k, _ in case["convs"]}) + [f"transports:{len(transports)}"]
                    + (["payload>64K"] if big else []), nontrivial=big or rich,
                    sample={"model": m, "convs": [k for k, _ in case["convs"]], "transports": transports})


class ExitDrain(Part):
    """exit() while answers are still under way: gw.exit() sends the terminate message and half-closes the connection;
    what the running body still sends during the worker's grace period must arrive the same way on every transport"""

    name = "exitdrain"
    budget = {"quick": 24, "thorough": 800}
    max_shards = 8
    min_per_shard = 3

    def setup(self, ctx):
        self.execnet = tree.use()

    def strategy(self, ctx):
        return st.fixed_dictionaries(dict(
            n=st.integers(1, 12), delay=st.sampled_from([0.0, 0.005, 0.03]), size=st.sampled_from([1, 100, 70000]),
            how=st.just("exit"), kind=st.sampled_from(["receive", "callback"]),
            # items sent to the worker immediately before exit(): they are ahead of the terminate message and are answered
            presend=st.lists(st.sampled_from([1, 3000, 70000, 3000000]), max_size=3)))

    def run(self, case, ctx):
        pre = case.get("presend", [])
        src = ("import time\nchannel.send('started')\nfor k in range(%d):\n    channel.send(['got', len(channel.receive())])\n"
               "for i in range(%d):\n    time.sleep(%r)\n    channel.send([i, 'x' * %d])\n"
               "channel.send('done')\n" % (len(pre), case["n"], case["delay"], case["size"]))
        want = ["started"] + [["got", k] for k in pre] + [[i, case["size"]] for i in range(case["n"])] + ["done"]
        group = self.execnet.Group()
        results = {}
        try:
            with Watchdog(120) as wd:
                group.makegateway("popen//id=base")
                gws = {"popen": group.makegateway("popen//id=d-popen"), "via": group.makegateway("popen//via=base//id=d-via"),
                       "socket": group.makegateway("socket//installvia=base//id=d-socket")}
                for t, gw in gws.items():
                    ch = gw.remote_exec(src)
                    got = []
                    if ch.receive(30) != "started":
                        raise Violation("exitdrain.no-start", f"{t}: first item missing", site=t)
                    got.append("started")
                    if case["kind"] == "callback":
                        END = object()
                        box = []
                        ch.setcallback(box.append, endmarker=END)
                    for k in pre:
                        ch.send("y" * k)
                    gw.exit()
                    if case["kind"] == "callback":
                        t_end = time.time() + 60
                        while (not box or box[-1] is not END) and time.time() < t_end:
                            time.sleep(0.01)
                        tail = "eof" if box and box[-1] is END else "no-endmarker"
                        items = [x for x in box if x is not END]
                    else:
                        items, tail = [], None
                        while tail is None:
                            try:
                                items.append(ch.receive(60))
                            except EOFError:
                                tail = "eof"
                            except self.execnet.TimeoutError:
                                tail = "timeout"
                            except ch.RemoteError as e:
                                tail = "remote-error:" + str(e).strip().splitlines()[-1][:80]
                    got += [[x[0], len(x[1]) if isinstance(x[1], str) else x[1]] if isinstance(x, list) else x for x in items]
                    results[t] = (got, tail)
            if wd.fired:
                raise Violation("exitdrain.hang", f"did not finish within 120 s: {sorted(results)} done")
            ref = results["popen"]
            for t in ("via", "socket"):
                if results[t] != ref:
                    raise Violation("exitdrain.transcripts-differ", f"after {case['how']}() with answers under way ({case}): popen "
                                    f"delivered {len(ref[0])} of {len(want)} items then {ref[1]}, {t} delivered "
                                    f"{len(results[t][0])} then {results[t][1]}", site=t)
            return dict(labels=[f"delay:{case['delay']}", f"size:{case['size']}", case["kind"],
                                "complete" if ref[0] == want else "incomplete", f"presend:{len(pre)}"],
                        nontrivial=case["n"] >= 2, sample=dict(case, delivered=len(ref[0]), of=len(want), tail=ref[1]))
        finally:
            try:
                with Watchdog(40):
                    group.terminate(timeout=2.0)
            except BaseException:  # noqa: BLE001
                pass
            finally:
                atexit.unregister(group._cleanup_atexit)
                kill_leftovers()


def _big(p):
    for d in ("a2b", "b2a"):
        for sender in p[d]:
            for pl in sender:
                if isinstance(pl, dict) and ("blob" in pl or "tblob" in pl) and list(pl.values())[0][2] > 65536:
                    return True
    return False


PARTS = [Equivalence(), ExitDrain()]
