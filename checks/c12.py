"""C12 - serialized byte format is stable and version compatible."""
from __future__ import annotations

import importlib.util
import json
import os
import subprocess
import threading

from hypothesis import strategies as st

from vlib import refcodec as R
from vlib import tree, values as V
from vlib.core import Part, Violation

PROPERTY = "C12"
RULE = (
    "(bytes) the C01 value grammar, dumps(v) compared byte-for-byte with an independent reference encoder and "
    "loads cross-checked with the reference decoder; (legacy) a grammar of streams mixing the Python-2 opcodes "
    "M/S/G/I with current ones, loaded under all four coercion settings through loads and load and compared with "
    "the reference decoder; (version) every foreign version byte; (coercion) frames with legacy payloads injected "
    "into a real Gateway object over pipes, received under generated Channel.reconfigure/Gateway.reconfigure/"
    "callback orders, and text sent to a real worker after reconfigure; (xinterp) values and dumps exchanged with "
    "the working-tree code running on the other CPython versions present; (release) differential against the "
    "released execnet in site-packages. Non-trivial = at least two distinct opcodes besides STOP, or a legacy "
    "opcode inside a container."
)
ASSUMPTIONS = [
    "vlib/refcodec.py encodes the documented dump format version 2 (written from the format description)",
    "Python-2 produced streams are modelled by the reference encoder's legacy opcodes (no Python 2 interpreter is run)",
    "interpreters: those under /root/.pyenv/versions plus the running one; missing ones are reported, 3.12 mandatory",
]


def _gb():
    tree.use()
    from execnet import gateway_base

    return gateway_base


def opcodes_of(data, versioned=True):
    return {name for _, name, _ in R.tokenize(data, versioned) if name and name != "STOP"}


class Bytes(Part):
    name = "bytes"
    budget = {"quick": 6000, "thorough": 300000}

    def strategy(self, ctx):
        return V.all_values(big_digits=False)

    def encode(self, v):
        return V.to_json(v)

    def decode(self, j):
        return V.from_json(j)

    def run(self, v, ctx):
        gb = _gb()
        try:
            got = gb.dumps(v)
        except RecursionError:
            return dict(labels=["recursion-limit"], nontrivial=False)
        except BaseException as e:  # noqa: BLE001
            raise Violation("bytes.dumps-raises", exc=e) from None
        want = R.ref_dumps(v)
        if got != want:
            i = next((k for k in range(min(len(got), len(want))) if got[k] != want[k]), min(len(got), len(want)))
            raise Violation("bytes.differ", f"first difference at offset {i}: got {got[i:i+12]!r} want {want[i:i+12]!r}")
        # reference-encoded stream loads to the same value; tree-encoded stream decodes with the reference decoder
        try:
            back = gb.loads(want)
        except BaseException as e:  # noqa: BLE001
            raise Violation("bytes.loads-of-reference-raises", exc=e) from None
        if V.fp(back) != V.fp(v):
            raise Violation("bytes.loads-of-reference-differs", f"{back!r:.200}")
        if V.fp(R.ref_loads(got)) != V.fp(v):
            raise Violation("bytes.reference-decoder-disagrees", "ref_loads(dumps(v)) != v")
        # internal (unversioned) form used on the wire is the same stream without the version byte
        try:
            internal = gb.dumps_internal(v)
        except BaseException as e:  # noqa: BLE001
            raise Violation("bytes.dumps-internal-raises", exc=e) from None
        if internal != want[1:]:
            raise Violation("bytes.internal-differ", "dumps_internal(v) != dumps(v)[1:]")
        ops = opcodes_of(got)
        return dict(labels=sorted("op:" + o for o in ops), nontrivial=len(ops) >= 2)


# ----------------------------------------------------------------------------- legacy streams


def legacy_nodes():
    """tree of (kind, payload) nodes; kinds of leaves name the opcode to use"""
    leaf = st.one_of(
        st.tuples(st.just("M"), st.binary(max_size=12)),  # PY2STRING: arbitrary bytes
        st.tuples(st.just("S"), V.texts(8)),  # UNICODE
        st.tuples(st.just("N"), V.texts(8)),  # PY3STRING
        st.tuples(st.just("G"), st.integers(-(2**31), 2**31 - 1)),  # LONG (4 byte)
        st.tuples(st.just("I"), st.integers(-(10**30), 10**30)),  # LONGLONG decimal text
        st.tuples(st.just("F"), st.integers(-(2**31), 2**31 - 1)),
        st.tuples(st.just("H"), st.one_of(st.integers(2**31, 2**80), st.integers(-(2**80), -(2**31) - 1))),
        st.tuples(st.just("A"), st.binary(max_size=6)),
        st.tuples(st.just("L"), st.none()),
        st.tuples(st.just("R"), st.none()),
        st.tuples(st.just("D"), st.floats(allow_nan=False)),
    )
    hashable = st.recursive(leaf, lambda ch: st.tuples(st.just("tuple"), st.lists(ch, max_size=3)), max_leaves=4)

    def ext(ch):
        return st.one_of(
            st.tuples(st.just("list"), st.lists(ch, max_size=4)),
            st.tuples(st.just("tuple"), st.lists(ch, max_size=4)),
            st.tuples(st.just("dict"), st.lists(st.tuples(hashable, ch), max_size=3)),
            st.tuples(st.just("set"), st.lists(hashable, max_size=3)),
            st.tuples(st.just("frozenset"), st.lists(hashable, max_size=3)),
        )

    return st.recursive(leaf, ext, max_leaves=10)


def legacy_encode(node, out, depth=0, info=None):
    k, p = node
    if info is not None and k in "MSGI" and depth > 0:
        info["legacy_in_container"] = True
    if info is not None and k in "MSGI":
        info["legacy"] = True
    if k == "M":
        out.append(b"M" + R.i4(len(p)) + p)
    elif k in ("S", "N"):
        e = p.encode("utf-8")
        out.append(k.encode() + R.i4(len(e)) + e)
    elif k in ("G", "F"):
        out.append(k.encode() + R.i4(p))
    elif k in ("I", "H"):
        d = str(p).encode()
        out.append(k.encode() + R.i4(len(d)) + d)
    elif k == "A":
        out.append(b"A" + R.i4(len(p)) + p)
    elif k == "L":
        out.append(b"L")
    elif k == "R":
        out.append(b"R")
    elif k == "D":
        import struct

        out.append(b"D" + struct.pack(">d", p))
    elif k == "list":
        out.append(b"K" + R.i4(len(p)))
        for i, x in enumerate(p):
            out.append(b"F" + R.i4(i))
            legacy_encode(x, out, depth + 1, info)
            out.append(b"P")
    elif k == "dict":
        out.append(b"J")
        for kk, vv in p:
            legacy_encode(kk, out, depth + 1, info)
            legacy_encode(vv, out, depth + 1, info)
            out.append(b"P")
    elif k in ("tuple", "set", "frozenset"):
        for x in p:
            legacy_encode(x, out, depth + 1, info)
        out.append({"tuple": b"@", "set": b"O", "frozenset": b"E"}[k] + R.i4(len(p)))
    else:
        raise AssertionError(k)


def _node_to_json(n):
    k, p = n
    if k in ("M", "A"):
        return [k, p.hex()]
    if k in ("S", "N"):
        return [k, V.to_json(p)]
    if k in ("list", "tuple", "set", "frozenset"):
        return [k, [_node_to_json(x) for x in p]]
    if k == "dict":
        return [k, [[_node_to_json(a), _node_to_json(b)] for a, b in p]]
    if k == "D":
        return [k, V.to_json(p)]
    if k in ("I", "H", "G", "F"):
        return [k, str(p)]
    return [k, None]


def _node_from_json(j):
    k, p = j
    if k in ("M", "A"):
        return (k, bytes.fromhex(p))
    if k in ("S", "N", "D"):
        return (k, V.from_json(p))
    if k in ("list", "tuple", "set", "frozenset"):
        return (k, [_node_from_json(x) for x in p])
    if k == "dict":
        return (k, [(_node_from_json(a), _node_from_json(b)) for a, b in p])
    if k in ("I", "H", "G", "F"):
        return (k, int(p))
    return (k, None)


class Legacy(Part):
    name = "legacy"
    budget = {"quick": 3000, "thorough": 100000}

    def strategy(self, ctx):
        return st.tuples(legacy_nodes(), st.booleans(), st.booleans())

    def encode(self, case):
        return [_node_to_json(case[0]), case[1], case[2]]

    def decode(self, j):
        return (_node_from_json(j[0]), j[1], j[2])

    def run(self, case, ctx):
        gb = _gb()
        import io

        node, a, b = case
        out, info = [], {}
        legacy_encode(node, out, 0, info)
        stream = R.VERSION + b"".join(out) + b"Q"
        try:
            want = R.ref_loads(stream, py2str_as_py3str=a, py3str_as_py2str=b)
        except (R.RefFormatError, R.RefEOF) as e:
            # e.g. unhashable after coercion cannot happen (bytes/str both hashable); anything else is my generator
            raise tree.HarnessError(f"reference decoder rejected a generated legacy stream: {e!r}") from None
        for how in ("loads", "load"):
            try:
                if how == "loads":
                    got = gb.loads(stream, py2str_as_py3str=a, py3str_as_py2str=b)
                else:
                    got = gb.load(io.BytesIO(stream), py2str_as_py3str=a, py3str_as_py2str=b)
            except BaseException as e:  # noqa: BLE001
                raise Violation(f"legacy.{how}-raises", exc=e) from None
            if V.fp(got) != V.fp(want):
                raise Violation(f"legacy.{how}-differs", f"flags=({a},{b}) got {got!r:.200} want {want!r:.200}")
        # documented defaults of loads/load: both switches False
        try:
            got = gb.loads(stream)
        except BaseException as e:  # noqa: BLE001
            raise Violation("legacy.loads-default-raises", exc=e) from None
        if V.fp(got) != V.fp(R.ref_loads(stream, False, False)):
            raise Violation("legacy.loads-default-differs", f"{got!r:.200}")
        labels = [f"flags:{int(a)}{int(b)}"] + (["legacy-in-container"] if info.get("legacy_in_container") else [])
        return dict(labels=labels, nontrivial=bool(info.get("legacy_in_container")),
                    sample={"stream": stream.hex(), "flags": [a, b]})


class Version(Part):
    name = "version"
    budget = {"quick": 600, "thorough": 20000}
    max_shards = 4

    def strategy(self, ctx):
        ver = st.one_of(st.integers(0, 255).filter(lambda x: x != 2).map(lambda x: bytes([x])), st.just(b""))
        return st.tuples(ver, V.values(max_leaves=4))

    def encode(self, case):
        return [case[0].hex(), V.to_json(case[1])]

    def decode(self, j):
        return (bytes.fromhex(j[0]), V.from_json(j[1]))

    def run(self, case, ctx):
        gb = _gb()
        ver, v = case
        data = ver + R.ref_dumps(v)[1:]
        try:
            res = gb.loads(data)
        except gb.DataFormatError:
            return dict(labels=["rejected"], nontrivial=len(ver) == 1)
        except EOFError:
            if ver == b"":
                # without a version byte the first opcode is taken for it; running into the end is allowed
                return dict(labels=["eof-no-version"], nontrivial=False)
            raise Violation("version.eof-instead-of-dataformaterror", f"version byte {ver!r}") from None
        except BaseException as e:  # noqa: BLE001
            raise Violation("version.wrong-exception", exc=e) from None
        raise Violation("version.accepted", f"foreign version byte {ver!r} accepted, result {res!r:.100}")


# ----------------------------------------------------------------------------- coercion on channels


from vlib.wires import PipeGateway as _PipeGateway  # noqa: E402


class Coercion(Part):
    """generated orders of reconfigure / setcallback / newchannel, then legacy payloads are injected"""

    name = "coercion"
    budget = {"quick": 400, "thorough": 10000}
    max_shards = 8
    min_per_shard = 50

    def strategy(self, ctx):
        flags = st.tuples(st.booleans(), st.booleans())
        step = st.one_of(
            st.tuples(st.just("gw_reconf"), flags),
            st.tuples(st.just("ch_reconf"), flags),
            st.tuples(st.just("setcallback"), st.none()),
            st.tuples(st.just("newchannel"), st.none()),
        )
        payload = st.lists(st.one_of(st.tuples(st.just("M"), st.binary(max_size=6)), st.tuples(st.just("N"), V.texts(5)),
                                     st.tuples(st.just("S"), V.texts(5))), min_size=1, max_size=3)
        return st.tuples(st.lists(step, max_size=5), payload)

    def encode(self, case):
        return [[[k, list(f) if f else None] for k, f in case[0]], [_node_to_json(n) for n in case[1]]]

    def decode(self, j):
        return ([(k, tuple(f) if f else None) for k, f in j[0]], [_node_from_json(n) for n in j[1]])

    def run(self, case, ctx):
        steps, payload = case
        pg = _PipeGateway()
        try:
            gw = pg.gw
            ch = gw.newchannel()
            cfg = (True, False)  # documented default of a gateway: py2 str -> py3 str, py3 str stays text
            gwcfg = cfg
            cb_items = None
            cb_cfg = None
            for k, f in steps:
                if k == "gw_reconf":
                    gw.reconfigure(py2str_as_py3str=f[0], py3str_as_py2str=f[1])
                    gwcfg = f
                elif k == "ch_reconf":
                    ch.reconfigure(py2str_as_py3str=f[0], py3str_as_py2str=f[1])
                    cfg = f  # "set the string coercion for this channel": applies to queue and callback alike
                elif k == "setcallback" and cb_items is None:
                    cb_items = []
                    done = threading.Event()
                    ch.setcallback(lambda x, L=cb_items: L.append(x), endmarker=done)
                    cb_cfg = cfg
                elif k == "newchannel":
                    ch = gw.newchannel()
                    cfg = gwcfg
                    cb_items = None
            node = ("list", list(payload))
            out = []
            legacy_encode(node, out)
            data = b"".join(out) + b"Q"
            pg.inject(4, ch.id, data)
            pg.inject(5, ch.id)
            use = cfg  # the channel object is alive, so its current setting governs (also for a callback)
            want = R.ref_loads(data, py2str_as_py3str=use[0], py3str_as_py2str=use[1], versioned=False)
            try:
                if cb_items is None:
                    got = ch.receive(timeout=30)
                else:
                    ch.waitclose(timeout=30)
                    got = cb_items[0] if cb_items and cb_items[0] is not done else None
            except BaseException as e:  # noqa: BLE001
                raise Violation("coercion.receive-raises", exc=e) from None
            if V.fp(got) != V.fp(want):
                raise Violation("coercion.differs", f"config {use} via {'callback' if cb_items is not None else 'queue'}: "
                                f"got {got!r:.150} want {want!r:.150}")
            labels = ["via:callback" if cb_items is not None else "via:queue", f"cfg:{int(use[0])}{int(use[1])}"]
            labels += sorted({"step:" + k for k, _ in steps})
            return dict(labels=labels, nontrivial=len(steps) >= 1)
        finally:
            pg.close()


class RemoteCoercion(Part):
    """the RECONFIGURE message makes the *remote* side decode accordingly (real popen worker)"""

    name = "remote-coercion"
    budget = {"quick": 200, "thorough": 4000}
    max_shards = 4
    min_per_shard = 50

    def setup(self, ctx):
        execnet = tree.use()
        self.group = execnet.Group()
        self.gw = self.group.makegateway("popen")

    def teardown(self, ctx):
        import atexit

        try:
            self.group.terminate(timeout=2.0)
        finally:
            atexit.unregister(self.group._cleanup_atexit)

    def strategy(self, ctx):
        flags = st.tuples(st.booleans(), st.booleans())
        return st.tuples(st.sampled_from(["channel", "gateway", "none"]), flags, V.texts(6))

    def encode(self, case):
        return [case[0], list(case[1]), V.to_json(case[2])]

    def decode(self, j):
        return (j[0], tuple(j[1]), V.from_json(j[2]))

    def run(self, case, ctx):
        how, f, text = case
        gw = self.gw
        try:
            if how == "gateway":
                gw.reconfigure(py2str_as_py3str=f[0], py3str_as_py2str=f[1])
            ch = gw.remote_exec("item = channel.receive(); channel.send((type(item).__name__, item))")
            if how == "channel":
                ch.reconfigure(py2str_as_py3str=f[0], py3str_as_py2str=f[1])
            ch.send(text)
            tname, back = ch.receive(timeout=30)
            ch.waitclose(timeout=30)
            if isinstance(tname, bytes):  # the reply is itself decoded under the local setting
                tname = tname.decode("ascii")
        except BaseException as e:  # noqa: BLE001
            raise Violation("remote-coercion.raises", exc=e) from None
        finally:
            if how == "gateway":
                gw.reconfigure()  # back to the defaults for the next case
        as_bytes = how != "none" and f[1]
        want_t = "bytes" if as_bytes else "str"
        # what comes back is decoded locally with the same setting
        want_back = text.encode("utf-8") if as_bytes else text
        if tname != want_t:
            raise Violation("remote-coercion.remote-type", f"{how} reconfigure{f}: remote saw {tname}, expected {want_t}")
        if how == "none" and V.fp(back) != V.fp(want_back):
            raise Violation("remote-coercion.echo", f"got {back!r:.100}")
        return dict(labels=["how:" + how, f"cfg:{int(f[0])}{int(f[1])}"], nontrivial=how != "none")


# ----------------------------------------------------------------------------- other interpreters


class _Helper:
    def __init__(self, exe):
        self.p = subprocess.Popen([exe, os.path.join(tree.VERIF, "vlib", "xinterp_helper.py"), tree.SRC],
                                  stdin=subprocess.PIPE, stdout=subprocess.PIPE, env=tree.child_env(), text=True)
        self.hello = json.loads(self.p.stdout.readline())

    def ask(self, v_json, dump_hex):
        self.p.stdin.write(json.dumps({"v": v_json, "b": dump_hex}) + "\n")
        self.p.stdin.flush()
        return json.loads(self.p.stdout.readline())

    def close(self):
        try:
            self.p.stdin.close()
            self.p.wait(10)
        except Exception:
            self.p.kill()


class XInterp(Part):
    name = "xinterp"
    budget = {"quick": 480, "thorough": 20000}
    max_shards = 8
    min_per_shard = 60

    def setup(self, ctx):
        self.helpers = {}
        import sys

        here = "%d.%d" % sys.version_info[:2]
        for mv, exe in tree.interpreters().items():
            if mv == here:
                continue
            try:
                self.helpers[mv] = _Helper(exe)
            except Exception as e:  # noqa: BLE001
                ctx.extra["interpreter_unavailable_" + mv] = repr(e)
        ctx.extra["interpreters"] = sorted(self.helpers) + [here + " (host)"]
        if not self.helpers:
            raise tree.HarnessError("no second interpreter available for the cross-interpreter part")

    def teardown(self, ctx):
        for h in self.helpers.values():
            h.close()

    def strategy(self, ctx):
        return V.all_values(big_digits=False)

    def encode(self, v):
        return V.to_json(v)

    def decode(self, j):
        return V.from_json(j)

    def run(self, v, ctx):
        gb = _gb()
        try:
            mine = gb.dumps(v)
        except RecursionError:
            return dict(labels=["recursion-limit"], nontrivial=False)
        vj = V.to_json(v)
        setfree = b"O" not in opcodes_bytes(mine) and b"E" not in opcodes_bytes(mine)
        for mv, h in self.helpers.items():
            r = h.ask(vj, mine.hex())
            if r["err"]:
                if r["err"].startswith("RecursionError"):
                    continue
                raise Violation("xinterp.other-raises", f"python {mv}: {r['err']}", site=mv)
            # their dump of the same value loads here to the same value (and is byte-identical when set-free)
            theirs = bytes.fromhex(r["dump"])
            if setfree and theirs != mine:
                raise Violation("xinterp.bytes-differ", f"python {mv} produced different bytes", site=mv)
            try:
                back = gb.loads(theirs)
            except BaseException as e:  # noqa: BLE001
                raise Violation("xinterp.loads-of-foreign-dump-raises", exc=e) from None
            if V.fp(back) != V.fp(v):
                raise Violation("xinterp.foreign-dump-differs", f"python {mv}", site=mv)
            # my dump loaded there gives the same value
            if V.fp(V.from_json(r["load"])) != V.fp(v):
                raise Violation("xinterp.foreign-load-differs", f"python {mv} loaded a different value", site=mv)
        ops = opcodes_of(mine)
        return dict(labels=["interpreters:%d" % len(self.helpers)], nontrivial=len(ops) >= 2)


def opcodes_bytes(data):
    return {R.OP[n] for n in opcodes_of(data)}


# ----------------------------------------------------------------------------- released copy


class Release(Part):
    """differential with the released execnet found in site-packages (when present)"""

    name = "release"
    budget = {"quick": 3000, "thorough": 100000}

    def setup(self, ctx):
        import sysconfig

        path = os.path.join(sysconfig.get_paths()["purelib"], "execnet", "gateway_base.py")
        self.rel = None
        if os.path.exists(path) and not os.path.realpath(path).startswith(os.path.realpath(tree.SRC)):
            spec = importlib.util.spec_from_file_location("execnet_released_gateway_base", path)
            mod = importlib.util.module_from_spec(spec)
            spec.loader.exec_module(mod)
            self.rel = mod
            ctx.extra["release_path"] = path
        else:
            ctx.extra["release_absent"] = 1

    def strategy(self, ctx):
        return V.all_values(big_digits=False)

    def encode(self, v):
        return V.to_json(v)

    def decode(self, j):
        return V.from_json(j)

    def run(self, v, ctx):
        if self.rel is None:
            return dict(labels=["release-absent"], nontrivial=False, count=0)
        gb = _gb()
        try:
            old = self.rel.dumps(v)
        except Exception:
            return dict(labels=["release-cannot-dump"], nontrivial=False)
        try:
            new = gb.dumps(v)
        except BaseException as e:  # noqa: BLE001
            raise Violation("release.tree-cannot-dump", exc=e) from None
        if old != new:
            raise Violation("release.bytes-differ", "tree and release encode the same value differently")
        try:
            a = self.rel.loads(old)
        except Exception:
            return dict(labels=["release-cannot-load"], nontrivial=False)
        try:
            b = gb.loads(old)
        except BaseException as e:  # noqa: BLE001
            raise Violation("release.tree-cannot-load", exc=e) from None
        if V.fp(a) != V.fp(b):
            raise Violation("release.load-differs", f"{a!r:.100} vs {b!r:.100}")
        return dict(labels=["release-agrees"], nontrivial=len(opcodes_of(new)) >= 2)


PARTS = [Bytes(), Legacy(), Version(), Coercion(), RemoteCoercion(), XInterp(), Release()]
