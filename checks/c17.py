"""C17 - RSync makes every target tree equal to the source, minimally."""
from __future__ import annotations

import atexit
import os

from hypothesis import strategies as st

from vlib import fslab as F
from vlib import tree
from vlib.core import Part, Violation, Watchdog, kill_leftovers

PROPERTY = "C17"
RULE = (
    "Generated source trees (names with spaces, unicode, leading dots and dashes, a newline; empty, small and large "
    "files with generated modes and integer / quarter-second / arbitrary float mtimes; nested directories incl. "
    "read-only ones; relative, absolute-inside, absolute-outside, dangling and directory symlinks) x generated prior "
    "target states (absent, empty, an independent generated tree - hence entries of another kind under the same "
    "name, extra entries, files of equal size and different content) x delete flag x 1-3 targets (separate popen "
    "gateways) x the caller's working directory (outside, the source dir, a sub-directory of it, the targets' parent); "
    "followed by a generated history of modify-source (rewrite same size / other size, touch, chmod only, add, remove, "
    "change kind) and re-sync steps and a final re-sync of the unchanged tree. Oracle: an independent tree walker - "
    "same kind for every source path; files byte-identical with equal permission bits and mtime; directories carry the "
    "source mode | 0o700; symlinks: an absolute link into the source tree points to the corresponding place in the "
    "target, every other link is verbatim; delete=True leaves nothing else, without it every foreign entry that is "
    "not replaced survives unchanged; re-sync of an unchanged tree reports no file transfer, a 'list' total of 0 and "
    "changes nothing. Non-trivial = a sub-directory plus a symlink, a prior entry of another kind, or a mode-only change."
)
ASSUMPTIONS = [
    "directories get mode | 0o700 on the target by documented design; directory mtimes are not part of the protocol",
    "prior files that coincide with the source in size AND mtime but differ in content are not generated: skipping "
    "them is the rsync quick-check the protocol is built on",
    "mtimes are compared with a tolerance of 1 microsecond (float seconds -> utime -> st_mtime)",
    "the harness runs as root: permission bits are stored but not enforced",
]


def mutations():
    return st.one_of(
        st.tuples(st.just("rewrite_same_size"), st.integers(0, 20), st.integers(0, 255)),
        st.tuples(st.just("rewrite_other_size"), st.integers(0, 20), st.integers(0, 5000)),
        st.tuples(st.just("touch"), st.integers(0, 20), st.integers(1_000_000_000, 1_700_000_000)),
        st.tuples(st.just("chmod"), st.integers(0, 20), st.sampled_from([0o644, 0o444, 0o600, 0o755, 0o400])),
        st.tuples(st.just("remove"), st.integers(0, 20), st.none()),
        st.tuples(st.just("add"), st.integers(0, 20), st.integers(0, 255)),
        st.tuples(st.just("to_dir"), st.integers(0, 20), st.none()),
        st.tuples(st.just("to_file"), st.integers(0, 20), st.integers(0, 255)),
    )


def strategy(max_size):
    return st.fixed_dictionaries(dict(
        source=F.entries(max_entries=8, max_size=max_size),
        prior=st.lists(st.one_of(st.just("absent"), st.just("empty"), F.entries(max_entries=6, max_size=2000)), min_size=1, max_size=3),
        delete=st.booleans(),
        cwd=st.sampled_from(["outside", "source", "source-sub", "targets-parent"]),
        history=st.lists(st.lists(mutations(), min_size=1, max_size=3), max_size=3),
        trailing_slash=st.booleans(),
        reuse=st.booleans(),  # one RSync object for the whole history (add_target + send again) or a fresh one per step
    ))


class Sync(Part):
    name = "sync"
    budget = {"quick": 800, "thorough": 20000}
    max_shards = 8
    min_per_shard = 8

    def setup(self, ctx):
        self.execnet = tree.use()
        self.home = os.getcwd()
        self.group = self.execnet.Group()
        self.gws = [self.group.makegateway("popen") for _ in range(3)]
        self.n = 0
        self.root = os.path.join(ctx.scratch, "fs")
        os.makedirs(self.root)

    def teardown(self, ctx):
        os.chdir(self.home)
        try:
            with Watchdog(30):
                self.group.terminate(timeout=2.0)
        except BaseException:  # noqa: BLE001
            pass
        finally:
            atexit.unregister(self.group._cleanup_atexit)
            kill_leftovers()

    def strategy(self, ctx):
        return strategy(300000 if ctx.tier == "quick" else 16_000_000)

    # ----------------------------------------------------------------------------------------------
    def _sync(self, src, dests, delete, cwd, trailing, reuse=None):
        from execnet.rsync import RSync

        sent, listed = [], []

        class R(RSync):
            def _report_send_file(self, gateway, modified_rel_path):
                self.sent_log.append(modified_rel_path)

        def cb(cmd, value, channel):
            if cmd == "list":
                r.listed_log.append(value)

        os.chdir(cwd)
        try:
            if reuse is not None and reuse.get("r") is not None:
                r = reuse["r"]
            else:
                r = R(src + ("/" if trailing else ""), callback=cb, verbose=False)
                if reuse is not None:
                    reuse["r"] = r
            r.sent_log, r.listed_log = sent, listed
            for gw, d in zip(self.gws, dests):
                if delete:
                    r.add_target(gw, d, delete=True)
                else:
                    r.add_target(gw, d)
            with Watchdog(120) as wd:
                try:
                    r.send()
                except Violation:
                    raise
                except BaseException as e:  # noqa: BLE001
                    if not wd.fired:
                        raise Violation("sync.send-raises", exc=e) from None
            if wd.fired:
                raise Violation("sync.hang", "RSync.send() did not return within 120 s")
        finally:
            os.chdir(self.home)
        return sent, listed

    def _judge(self, src, dest, before, delete, where):
        s, t = F.snapshot(src), F.snapshot(dest)
        for p, (kind, mode, mtime, data) in s.items():
            if p not in t:
                raise Violation("sync.missing", f"{where}: source entry {p!r} ({kind}) is missing in the target", site=kind)
            tk, tm, tt, td = t[p]
            if tk != kind:
                raise Violation("sync.kind", f"{where}: {p!r} is a {kind} in the source and a {tk} in the target "
                                f"(before the sync the target had {before.get(p, ('nothing',))[0]})", site=kind)
            if kind == "file":
                if td != data:
                    raise Violation("sync.content", f"{where}: file {p!r} differs in content", site="content")
                if tm != mode:
                    raise Violation("sync.mode", f"{where}: file {p!r} has mode {oct(tm)} in the target, {oct(mode)} in the source "
                                    f"(target before: {before.get(p)})", site="file-mode")
                if abs(tt - mtime) > 1e-6:
                    raise Violation("sync.mtime", f"{where}: file {p!r} has mtime {tt!r} in the target, {mtime!r} in the source",
                                    site="mtime")
            elif kind == "dir":
                if tm != (mode | 0o700):
                    raise Violation("sync.dir-mode", f"{where}: directory {p!r} has mode {oct(tm)}, expected {oct(mode | 0o700)}",
                                    site="dir-mode")
            else:
                want = data
                if os.path.isabs(data):
                    rel = os.path.relpath(data, src)
                    if rel not in (os.curdir, os.pardir) and not rel.startswith(os.pardir + os.sep):
                        want = os.path.join(dest, rel)
                if td != want:
                    raise Violation("sync.symlink", f"{where}: symlink {p!r} -> {data!r} in the source arrived as -> {td!r}, "
                                    f"expected -> {want!r}", site="symlink")
        extra = sorted(set(t) - set(s))
        if delete:
            if extra:
                raise Violation("sync.delete", f"{where}: delete=True but the target still has {extra[:4]}", site="delete")
        else:
            for p in extra:
                if p not in before:
                    raise Violation("sync.invented", f"{where}: target entry {p!r} exists neither in the source nor before", site="extra")
                # an entry below something that had to be replaced (other kind) legitimately went away with it; what is
                # still there must be untouched
                if before[p] != t[p]:
                    raise Violation("sync.foreign-changed", f"{where}: unrelated target entry {p!r} changed from {before[p]} to "
                                    f"{t[p]}", site="extra")
            for p in before:
                if p not in t and p not in s:
                    parts = p.split(os.sep)
                    covered = any(os.sep.join(parts[:i]) in s and s[os.sep.join(parts[:i])][0] != "dir" or
                                  (os.sep.join(parts[:i]) in s and before.get(os.sep.join(parts[:i]), ("dir",))[0] != "dir")
                                  for i in range(1, len(parts)))
                    if not covered:
                        raise Violation("sync.foreign-removed", f"{where}: unrelated target entry {p!r} disappeared although "
                                        f"delete was not requested", site="extra")

    def _mutate(self, src, specs, muts):
        """apply mutations to the source tree on disk; -> labels"""
        labels = []
        files = sorted(p for p, v in F.snapshot(src).items() if v[0] == "file")
        for kind, idx, arg in muts:
            if kind == "add":
                p = os.path.join(src, f"added-{idx}-{arg}")
                if os.path.isdir(p):
                    continue
                with open(p, "wb") as f:
                    f.write(F.content(arg, 10 + idx))
                labels.append("mut:add")
                continue
            if not files:
                continue
            rel = files[idx % len(files)]
            full = os.path.join(src, rel)
            if not os.path.isfile(full) or os.path.islink(full):
                continue
            st_ = os.lstat(full)
            if kind == "rewrite_same_size":
                with open(full, "wb") as f:
                    f.write(F.content(arg + 1, st_.st_size))
                os.utime(full, (st_.st_mtime + 10, st_.st_mtime + 10))
            elif kind == "rewrite_other_size":
                with open(full, "wb") as f:
                    f.write(F.content(7, arg if arg != st_.st_size else arg + 1))
            elif kind == "touch":
                os.utime(full, (float(arg), float(arg)))
            elif kind == "chmod":
                os.chmod(full, arg)
                os.utime(full, (st_.st_mtime, st_.st_mtime))
            elif kind == "remove":
                os.unlink(full)
                files.remove(rel)
            elif kind == "to_dir":
                os.unlink(full)
                os.mkdir(full)
                with open(os.path.join(full, "inner"), "wb") as f:
                    f.write(b"inner")
                files.remove(rel)
            elif kind == "to_file":
                pass
            labels.append("mut:" + kind)
        return labels

    def run(self, case, ctx):
        self.n += 1
        base = os.path.join(self.root, f"c{self.n}")
        src = os.path.join(base, "src tree")
        os.makedirs(base)
        labels = []
        try:
            specs = F.build(src, case["source"])
            dests = []
            for i, prior in enumerate(case["prior"]):
                d = os.path.join(base, "targets", f"t{i}")
                os.makedirs(os.path.dirname(d), exist_ok=True)
                if prior == "empty":
                    os.makedirs(d)
                elif prior != "absent":
                    F.build(d, prior)
                    # a prior file that coincides with the source file in size AND mtime (but not content) is the case
                    # the rsync quick-check cannot see by design: excluded by construction (its mtime is moved), counted
                    s_snap, p_snap = F.snapshot(src), F.snapshot(d)
                    for rel, v in p_snap.items():
                        sv = s_snap.get(rel)
                        if sv and v[0] == sv[0] == "file" and v[3] != sv[3] and v[2] == sv[2] and \
                                os.path.getsize(os.path.join(d, rel)) == os.path.getsize(os.path.join(src, rel)):
                            os.utime(os.path.join(d, rel), (v[2] + 1, v[2] + 1))
                            ctx.count("prior_files_moved_off_quickcheck_coincidence")
                dests.append(d)
                labels.append("prior:" + (prior if isinstance(prior, str) else "tree"))
            subs = [p for p, v in F.snapshot(src).items() if v[0] == "dir"]
            cwd = {"outside": "/", "source": src, "source-sub": os.path.join(src, subs[0]) if subs else src,
                   "targets-parent": os.path.join(base, "targets")}[case["cwd"]]
            labels.append("cwd:" + case["cwd"])
            other_kind = False
            reuse = {"r": None} if case.get("reuse") else None
            steps = [None] + list(case["history"])
            for si, muts in enumerate(steps):
                if muts is not None:
                    labels += self._mutate(src, specs, muts)
                befores = [F.snapshot(d) if os.path.isdir(d) else {} for d in dests]
                s_now = F.snapshot(src)
                for b in befores:
                    if any(p in b and b[p][0] != v[0] for p, v in s_now.items()):
                        other_kind = True
                self._sync(src, dests, case["delete"], cwd, case["trailing_slash"], reuse)
                for i, (d, b) in enumerate(zip(dests, befores)):
                    self._judge(src, d, b, case["delete"], f"step {si} target {i} (cwd {case['cwd']}, delete={case['delete']})")
            # re-sync of the unchanged tree: nothing is transferred, nothing changes
            snaps = [F.snapshot(d) for d in dests]
            sent, listed = self._sync(src, dests, case["delete"], cwd, case["trailing_slash"], reuse)
            if sent:
                raise Violation("sync.resync-transfers", f"re-sync of an unchanged tree transferred {sent[:4]}", site="resync")
            if any(v != 0 for v in listed):
                raise Violation("sync.resync-list-total", f"re-sync of an unchanged tree announced {listed} bytes to send", site="resync")
            for d, before in zip(dests, snaps):
                if F.snapshot(d) != before:
                    raise Violation("sync.resync-changes", "re-sync of an unchanged tree changed the target", site="resync")
            kinds = {s["kind"] for s in specs}
            if "link" in kinds:
                labels += sorted({"link:" + s["target"] for s in specs if s["kind"] == "link"})
            nontrivial = ("link" in kinds and any("/" in s["path"] for s in specs)) or other_kind or "mut:chmod" in labels
            if other_kind:
                labels.append("prior-entry-of-other-kind")
            labels.append(f"targets:{len(dests)}")
            labels.append("delete" if case["delete"] else "keep")
            labels.append("rsync-object-reused" if case.get("reuse") else "rsync-object-fresh")
            return dict(labels=sorted(set(labels)), nontrivial=nontrivial,
                        sample={"source": [(s["kind"], s["path"]) for s in specs][:8], "targets": len(dests),
                                "cwd": case["cwd"], "history": [[m[0] for m in h] for h in case["history"]]})
        finally:
            os.chdir(self.home)
            F.force_remove(base)


PARTS = [Sync()]
