"""E2 - reference implementation of execnet's dump format version 2 and of the message frame,
written from the format description (one opcode letter per type, big-endian 4-byte lengths and
small ints, decimal text for big ints, IEEE-754 big-endian doubles, post-order containers, STOP),
not from the code under test.  Nothing here imports execnet."""
from __future__ import annotations

import struct

VERSION = b"\x02"

OP = dict(
    BUILDTUPLE=b"@", BYTES=b"A", CHANNEL=b"B", FALSE=b"C", FLOAT=b"D", FROZENSET=b"E", INT=b"F", LONG=b"G",
    LONGINT=b"H", LONGLONG=b"I", NEWDICT=b"J", NEWLIST=b"K", NONE=b"L", PY2STRING=b"M", PY3STRING=b"N",
    SET=b"O", SETITEM=b"P", STOP=b"Q", TRUE=b"R", UNICODE=b"S", COMPLEX=b"T",
)
NAME = {v: k for k, v in OP.items()}

I4MIN, I4MAX = -(2**31), 2**31 - 1


def i4(n: int) -> bytes:
    return struct.pack(">i", n)


def _dec(n: int) -> bytes:
    """decimal text of an int without going through int->str (which CPython limits to 4300 digits)"""
    if -(10**4000) < n < 10**4000:
        return str(n).encode("ascii")
    neg = n < 0
    n = abs(n)
    chunks = []
    base = 10**4000
    while n:
        n, r = divmod(n, base)
        chunks.append(r)
    out = str(chunks[-1])
    for c in reversed(chunks[:-1]):
        out += str(c).rjust(4000, "0")
    return (("-" if neg else "") + out).encode("ascii")


def _undec(b: bytes) -> int:
    s = b.decode("ascii")
    neg = s.startswith("-")
    if neg or s.startswith("+"):
        s = s[1:]
    if not s or not s.isdigit() or not s.isascii():
        raise ValueError("not decimal")
    n = 0
    for i in range(0, len(s), 4000):
        part = s[i : i + 4000]
        n = n * (10 ** len(part)) + int(part)
    return -n if neg else n


def ref_dumps(v, versioned=True, set_order=None) -> bytes:
    out = [VERSION] if versioned else []
    _enc(v, out)
    out.append(OP["STOP"])
    return b"".join(out)


def _enc(v, out):
    t = type(v)
    if v is None:
        out.append(OP["NONE"])
    elif t is bool:
        out.append(OP["TRUE"] if v else OP["FALSE"])
    elif t is int:
        if I4MIN <= v <= I4MAX:
            out.append(OP["INT"] + i4(v))
        else:
            d = _dec(v)
            out.append(OP["LONGINT"] + i4(len(d)) + d)
    elif t is float:
        out.append(OP["FLOAT"] + struct.pack(">d", v))
    elif t is complex:
        out.append(OP["COMPLEX"] + struct.pack(">d", v.real) + struct.pack(">d", v.imag))
    elif t is bytes:
        out.append(OP["BYTES"] + i4(len(v)) + v)
    elif t is str:
        e = v.encode("utf-8")
        out.append(OP["PY3STRING"] + i4(len(e)) + e)
    elif t is list:
        out.append(OP["NEWLIST"] + i4(len(v)))
        for i, x in enumerate(v):
            _enc(i, out)
            _enc(x, out)
            out.append(OP["SETITEM"])
    elif t is dict:
        out.append(OP["NEWDICT"])
        for k, x in v.items():
            _enc(k, out)
            _enc(x, out)
            out.append(OP["SETITEM"])
    elif t is tuple:
        for x in v:
            _enc(x, out)
        out.append(OP["BUILDTUPLE"] + i4(len(v)))
    elif t is set or t is frozenset:
        # element order is not part of the format: use the iteration order of this very object
        for x in v:
            _enc(x, out)
        out.append((OP["SET"] if t is set else OP["FROZENSET"]) + i4(len(v)))
    else:
        raise TypeError(f"not in the format: {t!r}")


class RefFormatError(Exception):
    pass


class RefEOF(Exception):
    pass


class _R:
    def __init__(self, b):
        self.b, self.i = b, 0

    def take(self, n):
        if n < 0:
            raise RefFormatError("negative length")
        if self.i + n > len(self.b):
            raise RefEOF()
        r = self.b[self.i : self.i + n]
        self.i += n
        return r

    def i4(self):
        return struct.unpack(">i", self.take(4))[0]


def ref_loads(b: bytes, py2str_as_py3str=False, py3str_as_py2str=False, versioned=True, maxlist=1 << 20):
    """Independent stack decoder incl. the legacy opcodes M S G I and the documented coercions.
    Raises RefEOF for input that merely ends early, RefFormatError for anything malformed."""
    r = _R(b)
    if versioned:
        v = r.take(1)
        if v != VERSION:
            raise RefFormatError("version")
    stack = []
    while True:
        op = r.take(1)
        name = NAME.get(op)
        if name is None:
            raise RefFormatError("opcode")
        if name == "STOP":
            if len(stack) != 1:
                raise RefFormatError("stack")
            return stack[0]
        if name == "NONE":
            stack.append(None)
        elif name == "TRUE":
            stack.append(True)
        elif name == "FALSE":
            stack.append(False)
        elif name in ("INT", "LONG"):
            stack.append(r.i4())
        elif name in ("LONGINT", "LONGLONG"):
            s = r.take(r.i4())
            try:
                stack.append(_undec(s.rstrip(b"L") if name == "LONGLONG" else s))
            except (ValueError, UnicodeDecodeError):
                raise RefFormatError("longint text") from None
        elif name == "FLOAT":
            stack.append(struct.unpack(">d", r.take(8))[0])
        elif name == "COMPLEX":
            stack.append(complex(struct.unpack(">d", r.take(8))[0], struct.unpack(">d", r.take(8))[0]))
        elif name == "BYTES":
            stack.append(r.take(r.i4()))
        elif name == "PY3STRING":
            s = r.take(r.i4())
            if py3str_as_py2str:
                stack.append(s)
            else:
                try:
                    stack.append(s.decode("utf-8"))
                except UnicodeDecodeError:
                    raise RefFormatError("utf8") from None
        elif name == "PY2STRING":
            s = r.take(r.i4())
            stack.append(s.decode("latin-1") if py2str_as_py3str else s)
        elif name == "UNICODE":
            s = r.take(r.i4())
            try:
                stack.append(s.decode("utf-8"))
            except UnicodeDecodeError:
                raise RefFormatError("utf8") from None
        elif name == "NEWLIST":
            n = r.i4()
            if n < 0 or n > maxlist:
                raise RefFormatError("list length")
            stack.append([None] * n)
        elif name == "NEWDICT":
            stack.append({})
        elif name == "SETITEM":
            if len(stack) < 3:
                raise RefFormatError("setitem")
            val = stack.pop()
            key = stack.pop()
            tgt = stack[-1]
            if type(tgt) is list:
                if type(key) is not int or not (0 <= key < len(tgt)):
                    raise RefFormatError("list index")
                tgt[key] = val
            elif type(tgt) is dict:
                try:
                    tgt[key] = val
                except TypeError:
                    raise RefFormatError("unhashable key") from None
            else:
                raise RefFormatError("setitem target")
        elif name in ("BUILDTUPLE", "SET", "FROZENSET"):
            n = r.i4()
            if n < 0 or n > len(stack):
                raise RefFormatError("collection length")
            items = stack[len(stack) - n :]
            del stack[len(stack) - n :]
            try:
                stack.append({"BUILDTUPLE": tuple, "SET": set, "FROZENSET": frozenset}[name](items))
            except TypeError:
                raise RefFormatError("unhashable element") from None
        elif name == "CHANNEL":
            raise RefFormatError("channel outside a gateway")


# ----------------------------------------------------------------------------- tokenizer

ARG = {  # opcode name -> kind of immediate argument
    "INT": "i4", "LONG": "i4", "NEWLIST": "i4", "BUILDTUPLE": "i4", "SET": "i4", "FROZENSET": "i4", "CHANNEL": "i4",
    "FLOAT": "f8", "COMPLEX": "f16",
    "BYTES": "str", "PY3STRING": "str", "PY2STRING": "str", "UNICODE": "str", "LONGINT": "str", "LONGLONG": "str",
}


def tokenize(b: bytes, versioned=True):
    """Position-accurate opcode tokenizer without stack semantics.
    -> list of (offset, name | None, arg) ; stops at the first anomaly (unknown opcode / short data)."""
    i = 1 if versioned else 0
    toks = []
    while i < len(b):
        name = NAME.get(b[i : i + 1])
        if name is None:
            toks.append((i, None, None))
            break
        kind = ARG.get(name)
        j = i + 1
        arg = None
        if kind == "i4":
            if j + 4 > len(b):
                toks.append((i, name, "short"))
                break
            arg = struct.unpack(">i", b[j : j + 4])[0]
            j += 4
        elif kind == "f8":
            if j + 8 > len(b):
                toks.append((i, name, "short"))
                break
            j += 8
        elif kind == "f16":
            if j + 16 > len(b):
                toks.append((i, name, "short"))
                break
            j += 16
        elif kind == "str":
            if j + 4 > len(b):
                toks.append((i, name, "short"))
                break
            n = struct.unpack(">i", b[j : j + 4])[0]
            j += 4
            if n < 0 or j + n > len(b):
                toks.append((i, name, ("badlen", n)))
                break
            arg = n
            j += n
        toks.append((i, name, arg))
        i = j
        if name == "STOP":
            break
    return toks


def max_newlist(b: bytes, versioned=True) -> int:
    """largest NEWLIST count reachable by the tokenizer (used to exclude the known memory finding)"""
    m = 0
    for _, name, arg in tokenize(b, versioned):
        if name == "NEWLIST" and isinstance(arg, int):
            m = max(m, arg)
    return m


# ----------------------------------------------------------------------------- frames


def ref_frame(msgcode: int, channelid: int, payload: bytes = b"") -> bytes:
    return struct.pack(">b", msgcode) + struct.pack(">i", channelid) + struct.pack(">i", len(payload)) + payload


def parse_frames(b: bytes):
    """-> (list of complete (code, channelid, payload) frames in the prefix b, number of bytes they cover)"""
    out, i = [], 0
    while len(b) - i >= 9:
        code = struct.unpack(">b", b[i : i + 1])[0]
        cid, n = struct.unpack(">ii", b[i + 1 : i + 9])
        if n < 0 or len(b) - i - 9 < n:
            break
        out.append((code, cid, b[i + 9 : i + 9 + n]))
        i += 9 + n
    return out, i
