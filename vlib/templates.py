"""Deadlock-free conversation templates (scripts for vlib/convo.py) and their transcript oracles.

A *direction* X->Y of a conversation: S sender threads on X send tagged items, then X's main actor
sends one STOP sentinel per receiver; Y consumes with R receiver threads (receive), one iterating
thread, or a callback.  Every item is [conv, dir, sender, seq, payload], so leakage into another
channel, loss, duplication and reordering are all visible in the consumer logs."""
from __future__ import annotations

from hypothesis import strategies as st

from . import convo
from . import values as V
from .core import Violation


def tag_item(conv, d, sender, seq, payload):
    return {"l": [conv, d, sender, seq, payload]}


def stop_item(conv, d):
    return {"l": ["STOP", conv, d]}


def fp_of(item_json):
    return convo.fpj(convo.dec(item_json))


def payloads(max_blob=0, min_blob=0):
    small = V.values(max_leaves=4).map(V.to_json)
    if max_blob:
        big = st.tuples(st.sampled_from(["blob", "tblob"]), st.integers(0, 99), st.integers(min_blob, max_blob)).map(
            lambda t: {t[0]: ["B", t[1], t[2]]})
        if min_blob:
            return st.one_of(small, big)
        return st.one_of(small, small, small, small, big)
    return small


def direction(conv, d, ch, per_sender_payloads, kind, receivers):
    """-> dict(sender_ops, consumer_ops, wait_ops, expect)
    kind: 'recv' (receivers threads), 'callback', 'iter' (only for the last direction of an exec channel:
    reads until EOF, no sentinel)"""
    snd_side, rcv_side = ("a", "b") if d == "a2b" else ("b", "a")
    sender_ops, sent = [], []
    for si, pls in enumerate(per_sender_payloads):
        items = [tag_item(conv, d, si, k, p) for k, p in enumerate(pls)]
        sent.append(items)
        tname = f"snd-{d}-{si}"
        sender_ops.append(["spawn", tname, [["send", ch, it] for it in items]])
    sender_ops += [["join", f"snd-{d}-{si}"] for si in range(len(per_sender_payloads))]
    stop = stop_item(conv, d)
    consumer_ops, wait_ops, keys = [], [], []
    if kind == "recv":
        for ri in range(receivers):
            tname = f"rcv-{d}-{ri}"
            consumer_ops.append(["spawn", tname, [["recv_until", ch, 0, convo.T, stop]]])
            wait_ops.append(["join", tname])
            keys.append(f"{rcv_side}:{conv}:{tname}")
        nstops = receivers
    elif kind == "callback":
        key = f"{rcv_side}:{conv}:cb-{d}"
        consumer_ops.append(["setcallback", ch, key, False, None, f"cbdone-{d}", stop])
        wait_ops.append(["wait", f"cbdone-{d}"])
        keys.append(key)
        nstops = 1
    elif kind == "iter":
        tname = f"rcv-{d}-iter"
        consumer_ops.append(["spawn", tname, [["iter", ch]]])
        wait_ops.append(["join", tname])
        keys.append(f"{rcv_side}:{conv}:{tname}")
        nstops = 0
    else:
        raise ValueError(kind)
    sender_ops += [["send", ch, stop] for _ in range(nstops)]
    expect = dict(conv=conv, dir=d, kind=kind, keys=keys, sent=[[fp_of(i) for i in items] for items in sent],
                  stop=fp_of(stop), nstops=nstops, sender_key=f"{snd_side}:{conv}")
    return dict(sender_ops=sender_ops, consumer_ops=consumer_ops, wait_ops=wait_ops, expect=expect)


def c02_conversation(conv, p):
    """p: dict(a2b=[[payload..] per sender], b2a=[[..]], kind_b, rcv_b, kind_a, rcv_a, sub=None|'a'|'b')
    -> (a_ops, b_ops, expects)"""
    ch = "sub" if p["sub"] else "main"
    a2b = direction(conv, "a2b", ch, p["a2b"], p["kind_b"], p["rcv_b"])
    b2a = direction(conv, "b2a", ch, p["b2a"], p["kind_a"], p["rcv_a"])
    b_ops, a_tail = [], []
    if p["sub"] == "a":
        a_pre = [["newchannel", "sub"], ["send_chan", "main", "sub", p.get("wrap", "bare")]]
        b_ops.append(["recv_chan", "main", "sub"])
    elif p["sub"] == "b":
        a_pre = [["recv_chan", "main", "sub"]]
        b_ops += [["newchannel", "sub"], ["send_chan", "main", "sub", p.get("wrap", "bare")]]
    else:
        a_pre = []
    stray = [["newchannel", "stray"], ["newchannel", "reply"], ["send_chan", "stray", "reply", "list"]]
    if p.get("stray") == "a":
        a_pre = a_pre + stray
    elif p.get("stray") == "b":
        b_ops += stray
    b_ops += a2b["consumer_ops"] + b2a["sender_ops"] + a2b["wait_ops"]
    if p["kind_a"] == "iter" and p["sub"]:
        # iteration ends at EOF: the B side closes the sub channel once it is completely done
        b_ops.append(["close", "sub"])
    a_ops = [["remote_exec", "main", b_ops]] + a_pre + b2a["consumer_ops"] + a2b["sender_ops"] + b2a["wait_ops"]
    a_ops += [["waitclose", "main"]]
    if not (p["kind_a"] == "callback" and not p["sub"]):
        a_ops += [["recv", "main", 1]]  # after the close: EOFError
    return a_ops, b_ops, [a2b["expect"], b2a["expect"]]


def c02_params(max_items=5, max_blob=0, allow_sub=True, allow_threads=True, min_blob=0):
    pl = payloads(max_blob, min_blob)
    senders = st.lists(st.lists(pl, max_size=max_items), min_size=1, max_size=2 if allow_threads else 1)
    kinds_b = st.sampled_from(["recv", "recv", "callback"])
    kinds_a = st.sampled_from(["recv", "recv", "callback", "iter"])
    return st.fixed_dictionaries(dict(
        a2b=senders, b2a=senders, kind_b=kinds_b, rcv_b=st.integers(1, 2 if allow_threads else 1),
        kind_a=kinds_a, rcv_a=st.integers(1, 2 if allow_threads else 1),
        sub=st.sampled_from([None, None, "a", "b"]) if allow_sub else st.none(),
        wrap=st.sampled_from(["bare", "list", "tuple", "dict"]),
        # a side sends an item containing a channel over a fresh channel the peer has never heard of: the item is
        # dropped by the receiving side and must not disturb anything else
        stray=st.sampled_from([None, None, None, None, "a", "b"]),
    ))


def build_c02_program(param_list, sequential=False):
    convs, expects = [], []
    for k, p in enumerate(param_list):
        a_ops, b_ops, ex = c02_conversation(k, p)
        convs.append({"id": k, "a": a_ops})
        expects += ex
    return {"convs": convs, "sequential": sequential}, expects


# ----------------------------------------------------------------------------- oracle


def _items_of(log):
    return [e[1] for e in log if e[0] == "item"]


def check_direction(result, ex, clause="deliver"):
    side = "a" if ex["dir"] == "b2a" else "b"
    logs = result[side] or {}
    where = f"conv {ex['conv']} {ex['dir']}"
    all_sent = [fp for s in ex["sent"] for fp in s]
    seen = []
    for key in ex["keys"]:
        log = logs.get(key)
        if log is None:
            raise Violation(f"{clause}.consumer-missing", f"{where}: consumer {key} produced no log at all")
        bad = [e for e in log if e[0] not in ("item", "iter-end", "setcallback")]
        if ex["kind"] == "iter":
            if not log or log[-1] != ["iter-end"]:
                raise Violation(f"{clause}.iteration-not-ended", f"{where}: {key} ends with {log[-3:]}")
            bad = [e for e in bad if e != ["iter-end"]]
        if bad:
            raise Violation(f"{clause}.unexpected-outcome", f"{where}: consumer {key} saw {bad[:3]} in {log[-6:]}")
        items = _items_of(log)
        if ex["kind"] != "iter":
            if not items or items[-1] != ex["stop"]:
                raise Violation(f"{clause}.no-stop", f"{where}: consumer {key} did not end with its STOP item: {items[-3:]}")
            if items.count(ex["stop"]) != 1:
                raise Violation(f"{clause}.duplicate", f"{where}: consumer {key} saw {items.count(ex['stop'])} STOP items")
            items = items[:-1]
        # per sender: the items this consumer saw must be an increasing subsequence of what that sender sent
        for si, sent in enumerate(ex["sent"]):
            mine = [fp for fp in items if fp in sent and _sender_of(fp) == si]
            pos = -1
            for fp in mine:
                try:
                    nxt = sent.index(fp, pos + 1)
                except ValueError:
                    raise Violation(f"{clause}.order", f"{where}: consumer {key} saw sender {si}'s items out of order "
                                    f"or duplicated: {_seqs(mine)} (sent {len(sent)})") from None
                pos = nxt
        foreign = [fp for fp in items if fp not in all_sent]
        if foreign:
            raise Violation(f"{clause}.foreign-item", f"{where}: consumer {key} received an item never sent on this "
                            f"channel/direction: {foreign[:2]}")
        seen += items
    if sorted(map(repr, seen)) != sorted(map(repr, all_sent)):
        missing = [fp for fp in all_sent if fp not in seen]
        dup = [fp for fp in set(map(repr, seen)) if list(map(repr, seen)).count(fp) > list(map(repr, all_sent)).count(fp)]
        raise Violation(f"{clause}.lost" if missing else f"{clause}.duplicate",
                        f"{where}: sent {len(all_sent)} items, consumers got {len(seen)}; missing seqs "
                        f"{_seqs(missing)[:6]} duplicated {dup[:2]}")
    if len(ex["keys"]) == 1 and len(ex["sent"]) == 1 and seen != ex["sent"][0]:
        raise Violation(f"{clause}.order", f"{where}: single consumer saw {_seqs(seen)}")
    # the sending side: every send succeeded
    slogs = result["a" if side == "b" else "b"] or {}
    for key, log in slogs.items():
        if key.startswith(ex["sender_key"] + ":"):
            bad = [e for e in log if e[0] == "send" and e[1] != "ok"]
            if bad:
                raise Violation(f"{clause}.send-failed", f"{where}: {key}: {bad[:2]}")


def _sender_of(fp):
    try:
        return int(fp[1][2][1], 16)
    except Exception:
        return None


def _seqs(fps):
    out = []
    for fp in fps:
        try:
            out.append((int(fp[1][2][1], 16), int(fp[1][3][1], 16)))
        except Exception:
            out.append("?")
    return out


def check_actor_health(result, clause="deliver"):
    for side in ("a", "b"):
        for key, log in (result[side] or {}).items():
            for e in log:
                if e[0] in ("actor-died", "thread-died", "actor-timeout", "join-timeout", "wait-timeout"):
                    raise Violation(f"{clause}.actor-{e[0]}", f"{key}: {e}")


# =============================================================================================
# C03: close ordered after data, observed consistently by both sides
# =============================================================================================


def c03_params(max_items=6):
    return st.fixed_dictionaries(dict(
        chan=st.sampled_from(["main", "main", "sub_a", "sub_b"]),  # exec channel, or sub channel created by A / by B
        closer=st.sampled_from(["a", "b"]),
        how=st.sampled_from(["close", "close", "drop", "drop_cb", "end"]),
        items=st.lists(payloads(), max_size=max_items),
        receivers=st.integers(1, 3),
        waiters=st.integers(0, 2),
        opposite=st.lists(payloads(), max_size=3),
        closer_receiver=st.booleans(),
        wrap=st.sampled_from(["bare", "list", "tuple", "dict"]),
        # the closing side pauses until every other thread has settled (blocked receivers and waitclose callers)
        pause=st.sampled_from(["none", "none", "before_close", "before_items"]),
    )).map(_c03_normalise)


def _c03_normalise(p):
    p = dict(p)
    if p["chan"] == "main":
        # the exec channel: A can close or drop it, B "closes" it by returning from the exec
        if p["closer"] == "b":
            # ... normally, or (for what would have been a drop-with-callback) by an EOFError leaving the body, which the
            # worker takes as "connection gone" and does not report: the channel must end all the same
            p["how"] = "end_eof" if p["how"] == "drop_cb" else "end"
        elif p["how"] == "end":
            p["how"] = "close"
    else:
        if p["how"] == "end":
            p["how"] = "close"
    if p["how"] != "close":
        p["closer_receiver"] = False
    return p


def c03_conversation(conv, p):
    ch = "main" if p["chan"] == "main" else "sub"
    closer, peer = p["closer"], ("b" if p["closer"] == "a" else "a")
    items = [tag_item(conv, f"{closer}2{peer}", 0, k, pl) for k, pl in enumerate(p["items"])]
    opp = [tag_item(conv, f"{peer}2{closer}", 0, k, pl) for k, pl in enumerate(p["opposite"])]
    # ---- closer script
    c_ops = []
    if p["closer_receiver"]:
        c_ops.append(["spawn", "crcv", [["recv_until", ch, 0]]])
    if p.get("pause") == "before_items":
        c_ops.append(["sleep", 0.2])
    c_ops += [["send", ch, it] for it in items]
    if p.get("pause") == "before_close":
        c_ops.append(["sleep", 0.2])
    if p["how"] == "close":
        c_ops += [["close", ch], ["note", "after-close"], ["send", ch, {"l": ["late"]}], ["isclosed", ch], ["waitclose", ch, 0.5],
                  ["close", ch]]
    elif p["how"] == "drop":
        c_ops += [["drop", ch]]
    elif p["how"] == "drop_cb":
        c_ops += [["setcallback", ch, f"{closer}:{conv}:cb", True], ["drop", ch]]
    elif p["how"] == "end_eof":
        c_ops += [["raise_eof", "body-eof"]]
    if p["closer_receiver"]:
        c_ops.append(["join", "crcv"])
    # ---- peer script
    p_ops = []
    for r in range(p["receivers"]):
        p_ops.append(["spawn", f"rcv{r}", [["recv_until", ch, 3]]])
    for w in range(p["waiters"]):
        # a waitclose() caller is an observer of the close in its own right
        after = [] if p["how"] == "drop_cb" else [["isclosed", ch], ["send", ch, {"l": ["late-w"]}]]
        p_ops.append(["spawn", f"wc{w}", [["waitclose", ch]] + after])
    if opp:
        p_ops.append(["spawn", "osnd", [["send", ch, it] for it in opp]])
    p_ops += [["join", f"rcv{r}"] for r in range(p["receivers"])]
    p_ops += [["join", f"wc{w}"] for w in range(p["waiters"])]
    if opp:
        p_ops.append(["join", "osnd"])
    peer_may_close = not (peer == "b" and ch == "main")  # an explicit close from inside the remote_exec is refused by design
    if p["how"] != "drop_cb":
        p_ops += [["note", "observed-close"], ["send", ch, {"l": ["late"]}], ["isclosed", ch], ["waitclose", ch, 0.5]]
        if peer_may_close:
            p_ops += [["close", ch]]
    elif peer_may_close:
        # "sendonly": the peer may still close its own side, and is then a closing side in its own right
        p_ops += [["close", ch], ["note", "own-close"], ["send", ch, {"l": ["late"]}], ["isclosed", ch], ["waitclose", ch, 0.5],
                  ["close", ch]]
    # ---- assemble: who creates the sub channel, who runs which script
    a_pre, b_pre = [], []
    if p["chan"] == "sub_a":
        a_pre = [["newchannel", "sub"], ["send_chan", "main", "sub", p["wrap"]]]
        b_pre = [["recv_chan", "main", "sub"]]
    elif p["chan"] == "sub_b":
        b_pre = [["newchannel", "sub"], ["send_chan", "main", "sub", p["wrap"]]]
        a_pre = [["recv_chan", "main", "sub"]]
    a_body, b_body = (c_ops, p_ops) if closer == "a" else (p_ops, c_ops)
    b_ops = b_pre + b_body
    a_ops = [["remote_exec", "main", b_ops]] + a_pre + a_body
    if ch == "sub" or closer == "b":
        a_ops += [["waitclose", "main"]]  # the exec itself still ends normally
    expect = dict(conv=conv, ch=ch, closer=closer, peer=peer, how=p["how"], sent=[fp_of(i) for i in items],
                  opposite=[fp_of(i) for i in opp], receivers=p["receivers"], waiters=p["waiters"],
                  closer_receiver=p["closer_receiver"], peer_may_close=peer_may_close)
    return a_ops, b_ops, expect


def build_c03_program(param_list):
    convs, expects = [], []
    for k, p in enumerate(param_list):
        a_ops, _, ex = c03_conversation(k, p)
        convs.append({"id": k, "a": a_ops})
        expects.append(ex)
    return {"convs": convs}, expects


def check_c03(result, ex, clause="close"):
    conv, peer, closer = ex["conv"], ex["peer"], ex["closer"]
    plogs = result[peer] or {}
    clogs = result[closer] or {}
    where = f"conv {conv} ({closer} {ex['how']}s {ex['ch']})"
    seen = []
    for r in range(ex["receivers"]):
        key = f"{peer}:{conv}:rcv{r}"
        log = plogs.get(key)
        if log is None:
            raise Violation(f"{clause}.consumer-missing", f"{where}: receiver {key} has no log")
        items = [e[1] for e in log if e[0] == "item"]
        tail = log[len(items):]
        if [e for e in log[:len(items)] if e[0] != "item"]:
            raise Violation(f"{clause}.item-after-eof", f"{where}: receiver {key} got an item after the end: {log[-6:]}")
        if ex["how"] == "drop_cb":
            # "sendonly": the peer's receivers are woken with EOFError, nothing more is claimed
            if not tail or tail[0] != ["eof"]:
                raise Violation(f"{clause}.no-eof", f"{where}: receiver {key} ended with {tail[:2]}")
        else:
            if tail != [["eof"]] * 4:
                raise Violation(f"{clause}.no-repeated-eof", f"{where}: receiver {key} expected EOFError on 4 consecutive "
                                f"receive() calls after the data, got {tail}")
        pos = -1
        for fp in items:
            if fp not in ex["sent"]:
                raise Violation(f"{clause}.foreign-item", f"{where}: receiver {key} got {fp}")
            nxt = ex["sent"].index(fp)
            if nxt <= pos:
                raise Violation(f"{clause}.order", f"{where}: receiver {key} saw items out of order: {_seqs(items)}")
            pos = nxt
        seen += items
    if sorted(map(repr, seen)) != sorted(map(repr, ex["sent"])):
        missing = [fp for fp in ex["sent"] if fp not in seen]
        raise Violation(f"{clause}.lost" if missing else f"{clause}.duplicate",
                        f"{where}: {len(ex['sent'])} items were sent before the close, the peer's receivers got {len(seen)} "
                        f"(missing seqs {_seqs(missing)})")
    for w in range(ex["waiters"]):
        log = plogs.get(f"{peer}:{conv}:wc{w}", [])
        want = [["waitclose", ex["ch"], "ok"]]
        if ex["how"] != "drop_cb":
            want += [["isclosed", True], ["send", "oserror"]]
        if log[:1] != want[:1]:
            raise Violation(f"{clause}.waitclose", f"{where}: waitclose caller {w} on the peer saw {log}")
        if log != want:
            raise Violation(f"{clause}.state-after-waitclose", f"{where}: after waitclose() returned on the peer, "
                            f"isclosed()/send() gave {log[1:]}")
    # state after the close, on the peer (once it has observed the close) and on the closing side (immediately)
    def post(log, marker, who, with_close=True):
        if marker not in log:
            raise Violation(f"{clause}.script-incomplete", f"{where}: {who} never reached {marker}: {log[-4:]}")
        want = [["send", "oserror"], ["isclosed", True], ["waitclose", ex["ch"], "ok"]] + ([["close", "ok"]] if with_close else [])
        tail = log[log.index(marker) + 1:][:len(want)]
        if tail != want:
            raise Violation(f"{clause}.state-after-close", f"{where}: on the {who} send/isclosed/waitclose/close gave {tail}")

    if ex["how"] != "drop_cb":
        post(plogs.get(f"{peer}:{conv}:main", []), ["note", "observed-close"], "peer", ex["peer_may_close"])
    if ex["how"] == "close":
        post(clogs.get(f"{closer}:{conv}:main", []), ["note", "after-close"], "closing side")
    if ex["how"] == "drop_cb" and ex["peer_may_close"]:
        post(plogs.get(f"{peer}:{conv}:main", []), ["note", "own-close"], "peer after its own close()")
    if ex["closer_receiver"]:
        log = clogs.get(f"{closer}:{conv}:crcv", [])
        items = [e[1] for e in log if e[0] == "item"]
        if items != ex["opposite"][:len(items)] or log[len(items):] != [["eof"]]:
            raise Violation(f"{clause}.closer-view", f"{where}: the closing side's own receiver saw {log[-4:]} "
                            f"(must be a prefix of the {len(ex['opposite'])} items sent to it, then EOFError)")


# =============================================================================================
# C07: remote failures surface as RemoteError on that channel only
# =============================================================================================


def c07_params():
    return st.fixed_dictionaries(dict(
        kind=st.sampled_from(["b_raises", "b_raises", "cb_a", "cb_b"]),
        items=st.lists(payloads(), max_size=5),      # b_raises: sent before the raise; cb_*: all items sent to the callback
        raise_at=st.integers(0, 4),
        consumer=st.sampled_from(["recv", "waitclose_first", "both"]),
        chan=st.sampled_from(["main", "sub_a", "sub_b"]),
        dropped=st.booleans(),
        endmarker=st.booleans(),
        wrap=st.sampled_from(["bare", "list", "dict"]),
    )).map(_c07_normalise)


def _c07_normalise(p):
    p = dict(p)
    if p["kind"] == "b_raises":
        p["chan"], p["dropped"] = "main", False
    else:
        if not p["items"]:
            p["items"] = [0]
        p["raise_at"] = min(p["raise_at"], len(p["items"]) - 1)
        if p["chan"] == "main":
            p["dropped"] = False  # the exec channel is referenced by the executing frame on B; A keeps it for the oracle
    return p


def c07_conversation(conv, p):
    ch = "main" if p["chan"] == "main" else "sub"
    a_pre, b_pre = [], []
    if p["chan"] == "sub_a":
        a_pre = [["newchannel", "sub"], ["send_chan", "main", "sub", p["wrap"]]]
        b_pre = [["recv_chan", "main", "sub"]]
    elif p["chan"] == "sub_b":
        b_pre = [["newchannel", "sub"], ["send_chan", "main", "sub", p["wrap"]]]
        a_pre = [["recv_chan", "main", "sub"]]

    def observe(kind):
        """ops of the side that must *see* the RemoteError"""
        if kind == "recv":
            return [["recv_until", ch, 2]]
        if kind == "waitclose_first":
            return [["waitclose", ch], ["recv_until", ch, 2]]
        return [["spawn", "wc", [["waitclose", ch]]], ["recv_until", ch, 2], ["join", "wc"]]

    if p["kind"] == "b_raises":
        items = [tag_item(conv, "b2a", 0, k, pl) for k, pl in enumerate(p["items"])]
        b_ops = [["send", "main", it] for it in items] + [["raise", f"boom-{conv}"]]
        a_ops = [["remote_exec", "main", b_ops]] + observe(p["consumer"]) + [["isclosed", "main"]]
        expect = dict(conv=conv, kind="b_raises", observer="a", ch="main", sent=[fp_of(i) for i in items],
                      needle=f"boom-{conv}", consumer=p["consumer"])
        return a_ops, expect
    owner, sender = ("a", "b") if p["kind"] == "cb_a" else ("b", "a")
    d = f"{sender}2{owner}"
    items = [tag_item(conv, d, 0, k, pl) for k, pl in enumerate(p["items"])]
    cbkey = f"{owner}:{conv}:cb"
    owner_ops = [["setcallback", ch, cbkey, p["endmarker"], p["raise_at"]], ["set", "cb-ready"]]
    if p["dropped"]:
        owner_ops += [["drop", ch]]
    else:
        owner_ops += [["waitclose", ch], ["isclosed", ch]]
    sender_ops = [["send", ch, it] for it in items] + observe(p["consumer"])
    # the sender starts only after the callback is registered: items that are already queued at registration time are
    # replayed to the callback in the *registering* thread, where a raising callback simply propagates to the caller
    # of setcallback() - ordinary Python semantics, not the error path this property is about.  The go-ahead travels
    # over the exec channel in the direction owner -> sender (the opposite of the data).
    if owner == "a":
        a_body = owner_ops[:2] + [["send", "main", "go"]] + owner_ops[2:]
        b_body = [["recv", "main", 1]] + sender_ops
    else:
        b_body = owner_ops[:2] + [["send", "main", "go"]] + owner_ops[2:]
        a_body = [["recv", "main", 1]] + sender_ops
    b_ops = b_pre + b_body
    a_ops = [["remote_exec", "main", b_ops]] + a_pre + a_body
    if ch != "main":
        a_ops += [["waitclose", "main"]]
    expect = dict(conv=conv, kind=p["kind"], observer=sender, owner=owner, ch=ch, sent=[fp_of(i) for i in items],
                  needle=f"cb-boom-{p['raise_at']}", raise_at=p["raise_at"], consumer=p["consumer"], cbkey=cbkey,
                  endmarker=p["endmarker"], dropped=p["dropped"])
    return a_ops, expect


def build_c07_program(param_list, siblings):
    convs, expects, sib_expects = [], [], []
    for k, p in enumerate(param_list):
        a_ops, ex = c07_conversation(k, p)
        convs.append({"id": k, "a": a_ops})
        expects.append(ex)
    for j, sp in enumerate(siblings):
        k = len(param_list) + j
        a_ops, _, ex = c02_conversation(k, sp)
        convs.append({"id": k, "a": a_ops})
        sib_expects += ex
    return {"convs": convs}, expects, sib_expects


def check_c07(result, ex, clause="error"):
    conv, obs = ex["conv"], ex["observer"]
    where = f"conv {conv} ({ex['kind']} on {ex['ch']})"
    olog_all = result[obs] or {}
    main = olog_all.get(f"{obs}:{conv}:main", [])
    wc = olog_all.get(f"{obs}:{conv}:wc", [])
    outcomes = [e for e in main if e[0] in ("item", "eof", "remote_error", "timeout", "exc", "oserror")]
    errs = [e for e in main + wc if "remote_error" in e[:3]]
    bad = [e for e in main + wc if e[0] in ("timeout", "exc") or (e[0] == "waitclose" and len(e) > 2 and e[2] in ("timeout", "exc"))]
    if bad:
        raise Violation(f"{clause}.unexpected-outcome", f"{where}: observer saw {bad[:2]}")
    if ex.get("dropped"):
        # dropping a channel that has a callback puts the peer into the documented "sendonly" state: its receivers
        # were already woken with EOFError when the drop arrived, a later callback failure can only be reported as a
        # warning on the peer.  What is asserted for this case: the callback log, the siblings, the gateway.
        if len(errs) > 1:
            raise Violation(f"{clause}.not-exactly-once", f"{where}: RemoteError surfaced {len(errs)} times")
    elif len(errs) != 1:
        raise Violation(f"{clause}.not-exactly-once", f"{where}: RemoteError surfaced {len(errs)} times on the peer "
                        f"(receive outcomes {[e[0] for e in outcomes]}, waitclose {[e[2:3] for e in main + wc if e[0] == 'waitclose']})")
    text = errs[0][-1] if errs else None
    for needle in (ex["needle"], "ValueError", "Traceback") if errs else ():
        if needle not in text:
            raise Violation(f"{clause}.text", f"{where}: RemoteError text lacks {needle!r}: {text[:300]!r}")
    if ex["kind"] == "b_raises":
        items = [e[1] for e in outcomes if e[0] == "item"]
        if items != ex["sent"]:
            raise Violation(f"{clause}.items-before-error", f"{where}: {len(ex['sent'])} items were sent before the raise, "
                            f"the peer received seqs {_seqs(items)}")
        kinds = [e[0] for e in outcomes]
        # all items first, then (unless waitclose consumed it) the error, then EOFError only
        after = kinds[len(items):]
        if [k for k in after if k not in ("remote_error", "eof")] or "item" in after:
            raise Violation(f"{clause}.order", f"{where}: outcomes after the data: {after}")
        if "remote_error" in after and after[0] != "remote_error":
            raise Violation(f"{clause}.order", f"{where}: EOFError before the RemoteError: {after}")
        if ["isclosed", True] not in main:
            raise Violation(f"{clause}.not-closed", f"{where}: channel not closed after the failure")
        return
    # callback kinds: what the callback saw, and the state of the failing side's own channel
    owner = ex["owner"]
    ologs = result[owner] or {}
    cb = ologs.get(ex["cbkey"], [])
    want = [["item", fp] for fp in ex["sent"][: ex["raise_at"] + 1]] + ([["endmarker"]] if ex["endmarker"] else [])
    if cb != want:
        raise Violation(f"{clause}.callback-log", f"{where}: callback raised at item {ex['raise_at']}; it was called with "
                        f"{[e[0] if e[0] != 'item' else _seqs([e[1]])[0] for e in cb]}, expected items 0..{ex['raise_at']}"
                        f"{' + endmarker' if ex['endmarker'] else ''}")
    if not ex["dropped"]:
        omain = ologs.get(f"{owner}:{conv}:main", [])
        w = [e for e in omain if e[0] == "waitclose" and e[1] == ex["ch"]]
        if not w or w[0][2] != "remote_error" or ex["needle"] not in w[0][3]:
            raise Violation(f"{clause}.own-channel", f"{where}: the failing side's own waitclose gave "
                            f"{[x[2:4] for x in w]} instead of a RemoteError naming the callback failure")
        if ["isclosed", True] not in omain:
            raise Violation(f"{clause}.own-channel-open", f"{where}: the failing side's own channel is not closed")


# =============================================================================================
# C10: callback receivers see every item once, in order, then one endmarker
# =============================================================================================


def c10_params(rich=False):
    """rich: at least 3 items, split in the middle, at most one taken by receive() first - a backlog is queued and
    further items are in flight when setcallback runs"""
    if rich:
        return st.fixed_dictionaries(dict(
            sender=st.sampled_from(["a", "b", "b"]), chan=st.sampled_from(["main", "main", "sub_a", "sub_b"]),
            items=st.lists(st.integers(0, 9), min_size=3, max_size=5), k_before=st.integers(0, 1), late=st.just(False),
            end=st.sampled_from(["close", "close", "raise"]), endmarker=st.booleans(), split=st.integers(2, 2),
            wrap=st.just("bare"))).map(_c10_normalise)
    return st.fixed_dictionaries(dict(
        sender=st.sampled_from(["a", "b", "b"]),
        chan=st.sampled_from(["main", "main", "sub_a", "sub_b"]),
        items=st.lists(payloads(), max_size=6),
        k_before=st.integers(0, 6),
        late=st.booleans(),
        end=st.sampled_from(["close", "close", "raise"]),
        endmarker=st.booleans(),
        split=st.integers(0, 6),
        wrap=st.sampled_from(["bare", "list", "dict"]),
    )).map(_c10_normalise)


def _c10_normalise(p):
    p = dict(p)
    p["k_before"] = min(p["k_before"], len(p["items"]))
    if p["chan"] == "main":
        if p["sender"] == "b":
            p["end"] = "end" if p["end"] == "close" else "raise"  # B ends its exec channel by returning or raising
        else:
            p["end"] = "close"
    else:
        p["end"] = "close"
    return p


def c10_conversation(conv, p):
    """Two-phase stream: the sender sends batch 1, announces it on a separate sync channel (frames are processed in
    wire order, so once the announcement is received batch 1 is queued on the data channel), waits for the go-ahead
    and sends batch 2.  The consumer takes k items of batch 1 with receive(), gives the go-ahead and registers the
    callback at once: a backlog is queued *and* further items are in flight at the moment of setcallback."""
    ch = "main" if p["chan"] == "main" else "sub"
    snd, cons = p["sender"], ("b" if p["sender"] == "a" else "a")
    items = [tag_item(conv, f"{snd}2{cons}", 0, k, pl) for k, pl in enumerate(p["items"])]
    n1 = min(len(items), max(p["k_before"], p.get("split", len(items) // 2)))
    batch1, batch2 = items[:n1], items[n1:]
    cbkey = f"{cons}:{conv}:cb"
    s_ops = [["send", ch, it] for it in batch1] + [["send", "sync", "b1"], ["recv", "sync", 1]]
    s_ops += [["send", ch, it] for it in batch2]
    if p["end"] == "close":
        s_ops += [["close", ch]]
    elif p["end"] == "raise":
        s_ops += [["raise", f"boom-{conv}"]]
    c_ops = [["recv", "sync", 1]]
    if p["k_before"]:
        c_ops += [["recv", ch, p["k_before"]]]
    c_ops += [["send", "sync", "go"]]
    if p["late"]:
        c_ops += [["waitclose", ch]]
    c_ops += [["setcallback", ch, cbkey, p["endmarker"], None, "cbdone"]]
    if p["endmarker"]:
        c_ops += [["wait", "cbdone"]]
    c_ops += [["waitclose", ch], ["note", "after"], ["recv", ch, 1, 0.5], ["setcallback", ch, cbkey + "2", False]]
    a_pre = [["newchannel", "sync"], ["send_chan", "main", "sync", "bare"]]
    b_pre = [["recv_chan", "main", "sync"]]
    if p["chan"] == "sub_a":
        a_pre += [["newchannel", "sub"], ["send_chan", "main", "sub", p["wrap"]]]
        b_pre += [["recv_chan", "main", "sub"]]
    elif p["chan"] == "sub_b":
        b_pre += [["newchannel", "sub"], ["send_chan", "main", "sub", p["wrap"]]]
        a_pre += [["recv_chan", "main", "sub"]]
    a_body, b_body = (s_ops, c_ops) if snd == "a" else (c_ops, s_ops)
    b_ops = b_pre + b_body
    a_ops = [["remote_exec", "main", b_ops]] + a_pre + a_body
    if ch == "sub":
        a_ops += [["waitclose", "main"]]
    expect = dict(conv=conv, consumer=cons, ch=ch, sent=[fp_of(i) for i in items], k=p["k_before"], cbkey=cbkey,
                  endmarker=p["endmarker"], end=p["end"], late=p["late"], backlog=n1 - p["k_before"], in_flight=len(batch2))
    return a_ops, expect


def c10_multi(conv, p):
    """p: dict(members=[[payload,...], ...] (2-4 lists), endmarker=bool) -> (a_ops, expect)"""
    a_ops, sent = [], {}
    names = []
    for m, pls in enumerate(p["members"]):
        name = f"m{m}"
        names.append(name)
        items = [tag_item(conv, f"m{m}", 0, k, pl) for k, pl in enumerate(pls)]
        sent[name] = [fp_of(i) for i in items]
        a_ops.append(["remote_exec", name, [["send", "main", it] for it in items], f"{conv}.{m}"])
    total = sum(len(v) for v in sent.values()) + (len(names) if p["endmarker"] else 0)
    a_ops.append(["multi_queue", names, p["endmarker"], total])
    a_ops += [["waitclose", n] for n in names]
    expect = dict(conv=conv, multi=True, sent=sent, endmarker=p["endmarker"], names=names)
    return a_ops, expect, [f"{conv}.{m}" for m in range(len(names))]


def check_c10(result, ex, clause="callback"):
    conv = ex["conv"]
    if ex.get("multi"):
        logs = result["a"] or {}
        main = logs.get(f"a:{conv}:main", [])
        if ["multi_queue", "drained"] not in main:
            raise Violation(f"{clause}.multi-queue", f"conv {conv}: receive queue: {[e for e in main if e[0] == 'multi_queue']}")
        for name in ex["names"]:
            got = logs.get(f"a:{conv}:mq:{name}", [])
            want = [["item", fp] for fp in ex["sent"][name]] + ([["endmarker"]] if ex["endmarker"] else [])
            if got != want:
                raise Violation(f"{clause}.multi-member", f"conv {conv} member {name}: queue delivered "
                                f"{[e[0] if e[0] != 'item' else _seqs([e[1]])[0] for e in got]}, expected {len(ex['sent'][name])} "
                                f"items in order{' then the endmarker' if ex['endmarker'] else ''}")
        return
    cons = ex["consumer"]
    logs = result[cons] or {}
    where = f"conv {conv} (callback on {cons}, {ex['ch']}, set after {ex['k']} receives{', after the close' if ex['late'] else ''})"
    main = logs.get(f"{cons}:{conv}:main", [])
    sync = (fp_of("b1"), fp_of("go"))
    first = [e for e in main if e[0] == "item" and e[1] not in sync][: ex["k"]]
    if [e[1] for e in first] != ex["sent"][: ex["k"]]:
        raise Violation(f"{clause}.before", f"{where}: receive() before setcallback gave seqs {_seqs([e[1] for e in first])}")
    sc = [e for e in main if e[0] == "setcallback"]
    if not sc or sc[0][1] != "ok":
        raise Violation(f"{clause}.setcallback-failed", f"{where}: {sc[:1]}")
    cb = logs.get(ex["cbkey"], [])
    want = [["item", fp] for fp in ex["sent"][ex["k"]:]] + ([["endmarker"]] if ex["endmarker"] else [])
    if cb != want:
        got_items = [e[1] for e in cb if e[0] == "item"]
        n_end = sum(1 for e in cb if e[0] == "endmarker")
        what = "lost" if len(got_items) < len(ex["sent"]) - ex["k"] else "order-or-duplicate"
        if got_items == [fp for fp in ex["sent"][ex["k"]:]]:
            what = "endmarker"
        raise Violation(f"{clause}.{what}", f"{where}: callback saw items {_seqs(got_items)} and {n_end} endmarker(s) "
                        f"(last entry {cb[-1][0] if cb else None}); expected seqs {ex['k']}..{len(ex['sent']) - 1} then "
                        f"{'exactly one' if ex['endmarker'] else 'no'} endmarker")
    if ["note", "after"] not in main:
        raise Violation(f"{clause}.script-incomplete", f"{where}: {main[-4:]}")
    tail = main[main.index(["note", "after"]) + 1:]
    if not tail or tail[0][0] != "oserror":
        raise Violation(f"{clause}.receive-not-refused", f"{where}: receive() after setcallback gave {tail[:1]}")
    if len(tail) < 2 or tail[1][:2] != ["setcallback", "oserror"]:
        raise Violation(f"{clause}.second-setcallback", f"{where}: a second setcallback gave {tail[1:2]}")


# =============================================================================================
# C18: channel ids never collide, channels travel over channels, tables do not grow
# =============================================================================================


def c18_params(max_rounds=4):
    rnd = st.fixed_dictionaries(dict(
        creator=st.sampled_from(["a", "b"]),
        wrap=st.sampled_from(["bare", "list", "tuple", "dict"]),
        end=st.sampled_from(["creator_close", "peer_close", "creator_drop", "peer_drop", "both_drop"]),
        extra_b_threads=st.integers(0, 2),
        cb_on_closer=st.booleans(),   # the side that closes the channel has a callback registered on it
        b_main_callback=st.booleans(),  # the B body registers a callback on its exec channel before it returns
        # A asks for the remote status (which allocates and releases a channel id internally) during the round
        a_status=st.sampled_from([None, None, "inline", "thread"]),
    ))
    return st.lists(rnd, min_size=1, max_size=max_rounds)


def c18_conversation(conv, rounds):
    """every round: one side creates a channel, passes it over the exec channel (bare or nested in a container), both
    sides exchange a token over it in both directions, then it is closed or dropped; `extra_b_threads` extra threads on
    B create (and close) channels of their own at the same time"""
    a_ops, b_ops, expect = [], [], []
    for r, p in enumerate(rounds):
        name = f"s{r}"
        tok_c = {"l": ["tok", conv, r, "from-creator"]}
        tok_p = {"l": ["tok", conv, r, "from-peer"]}
        creator_ops = [["newchannel", name], ["send_chan", "main", name, p["wrap"]], ["send", name, tok_c], ["recv", name, 1]]
        peer_ops = [["recv_chan", "main", name], ["recv", name, 1], ["send", name, tok_p]]
        cbk = lambda side: [["setcallback", name, f"{side}:{conv}:cb{r}", True]] if p.get("cb_on_closer") else []  # noqa: E731
        if p["end"] == "creator_close":
            creator_ops += cbk(p["creator"]) + [["close", name]]
            peer_ops += [["recv_until", name, 0], ["drop", name]]
        elif p["end"] == "peer_close":
            peer_ops += cbk("b" if p["creator"] == "a" else "a") + [["close", name]]
            creator_ops += [["recv_until", name, 0], ["drop", name]]
        elif p["end"] == "creator_drop":
            creator_ops += [["drop", name]]
            peer_ops += [["recv_until", name, 0], ["drop", name]]
        elif p["end"] == "peer_drop":
            peer_ops += [["drop", name]]
            creator_ops += [["recv_until", name, 0], ["drop", name]]
        else:
            creator_ops += [["drop", name]]
            peer_ops += [["drop", name]]
        extra = []
        for t in range(p["extra_b_threads"]):
            tn = f"x{r}.{t}"
            extra.append(["spawn", tn, [["newchannel", f"{name}.x{t}"], ["close", f"{name}.x{t}"], ["drop", f"{name}.x{t}"]]])
        joins = [["join", f"x{r}.{t}"] for t in range(p["extra_b_threads"])]
        a_round = creator_ops if p["creator"] == "a" else peer_ops
        if p.get("a_status") == "inline":
            a_round = [["status"]] + a_round
        elif p.get("a_status") == "thread":
            a_round = [["spawn", f"st{r}", [["status"]]]] + a_round + [["join", f"st{r}"]]
        a_ops += a_round
        if p["creator"] == "a":
            b_ops += extra + peer_ops + joins
        else:
            b_ops += extra + creator_ops + joins
        closer = {"creator_close": p["creator"], "peer_close": "b" if p["creator"] == "a" else "a"}.get(p["end"])
        expect.append(dict(conv=conv, r=r, name=name, creator=p["creator"], tok_c=fp_of(tok_c), tok_p=fp_of(tok_p),
                           end=p["end"], cbkey=f"{closer}:{conv}:cb{r}" if (closer and p.get("cb_on_closer")) else None,
                           closer=closer))
    if any(p.get("b_main_callback") for p in rounds):
        b_ops += [["setcallback", "main", f"b:{conv}:cbmain", True]]
    a_ops = [["remote_exec", "main", b_ops]] + a_ops + [["waitclose", "main"]]
    return a_ops, expect


def check_c18(result, expects, clause="ids"):
    ids = {"a": [], "b": []}
    for side in ("a", "b"):
        for key, log in (result[side] or {}).items():
            for e in log:
                if e[0] == "newchannel" and e[1] == "ok":
                    ids[side].append(e[2])
                if e[0] == "remote_exec" and e[1] == "ok" and len(e) > 2 and e[2] is not None:
                    ids["a"].append(e[2])
    for side, parity in (("a", 1), ("b", 0)):
        if len(set(ids[side])) != len(ids[side]):
            dup = sorted(i for i in set(ids[side]) if ids[side].count(i) > 1)
            raise Violation(f"{clause}.duplicate-id", f"side {side} handed out channel id(s) {dup} more than once "
                            f"({len(ids[side])} channels created concurrently)")
        bad = [i for i in ids[side] if i % 2 != parity]
        if bad:
            raise Violation(f"{clause}.parity", f"side {side} created channels with ids {bad[:5]}: the two sides must allocate "
                            f"from disjoint id spaces")
    if set(ids["a"]) & set(ids["b"]):
        raise Violation(f"{clause}.cross-side-collision", f"both sides created channel ids {sorted(set(ids['a']) & set(ids['b']))}")
    for ex in expects:
        conv = ex["conv"]
        creator, peer = ex["creator"], ("b" if ex["creator"] == "a" else "a")
        clog = (result[creator] or {}).get(f"{creator}:{conv}:main", [])
        plog = (result[peer] or {}).get(f"{peer}:{conv}:main", [])
        where = f"conv {conv} round {ex['r']} (created by {creator}, {ex['end']})"
        created = [e for e in clog if e[0] == "newchannel"]
        received = [e for e in plog if e[0] == "recv_chan"]
        rr = [x for x in received if x[1] != "ok"]
        if rr:
            raise Violation(f"{clause}.transfer-failed", f"{where}: {rr[:1]}")
        # the token sent by the creator must be what the peer reads from the transferred channel, and vice versa
        if ["item", ex["tok_c"]] not in plog:
            raise Violation(f"{clause}.not-connected", f"{where}: the peer did not receive the creator's token on the "
                            f"transferred channel: {[e for e in plog if e[0] in ('item', 'eof', 'timeout')][:6]}")
        if ["item", ex["tok_p"]] not in clog:
            raise Violation(f"{clause}.not-connected", f"{where}: the creator did not receive the peer's token: "
                            f"{[e for e in clog if e[0] in ('item', 'eof', 'timeout')][:6]}")
    for ex in expects:
        if ex.get("cbkey"):
            log = (result[ex["closer"]] or {}).get(ex["cbkey"], None)
            if log != [["endmarker"]]:
                raise Violation(f"{clause}.local-close-endmarker", f"conv {ex['conv']} round {ex['r']}: the closing side had a "
                                f"callback with endmarker registered; on its own close() the callback saw {log}")
    # transferred channels keep their id
    for conv in {ex["conv"] for ex in expects}:
        for creator, peer in (("a", "b"), ("b", "a")):
            cids = [e[2] for e in (result[creator] or {}).get(f"{creator}:{conv}:main", []) if e[0] == "newchannel" and e[1] == "ok"]
            pids = [e[2] for e in (result[peer] or {}).get(f"{peer}:{conv}:main", []) if e[0] == "recv_chan" and e[1] == "ok"]
            if sorted(cids) != sorted(pids):
                raise Violation(f"{clause}.id-changed", f"conv {conv}: channels created by {creator} have ids {cids}, "
                                f"the peer received channels with ids {pids}")
