"""Runner: tiers, seeds, sharding over processes, evidence, replay, known findings, exit codes.

    ./check Cnn --tier quick|thorough [--replay FILE] [--part NAME] [--shards N]

Exit codes: 0 property held on everything explored (KNOWN-FINDING lines may be printed),
            1 at least one violation outside KNOWN_FINDINGS.txt (one VIOLATION line each),
            2 harness error / inconclusive (never printed as a violation).

A check module ``checks/cNN.py`` defines ``PROPERTY`` (id), ``RULE`` (text: how cases are
generated and what makes one non-trivial), ``ASSUMPTIONS`` (list of str) and ``PARTS`` (list of
``Part`` objects).  A part is *generator -> run real code -> oracle*:

    class Part:
        name                      unique within the module
        budget = {"quick": n, "thorough": m}      number of cases (all shards together)
        max_shards = 16
        def strategy(self, ctx)   Hypothesis strategy producing a case            (or)
        def cases(self, ctx)      iterator over cases of *this shard* (enumerative parts)
        def encode(self, case)    -> JSON-able (default identity); decode() is the inverse
        def run(self, case, ctx)  -> dict(labels=[...], nontrivial=bool, sample=optional)
                                   raises Violation(clause, detail, exc=None) when the oracle fails,
                                   Inconclusive(reason) when a budget was hit.
Anything else escaping ``run`` is a harness error (exit 2): code under test is always called
inside explicit try/except blocks of the part, so an unexpected escape is my bug, not a verdict.
"""
from __future__ import annotations

import argparse
import hashlib
import importlib
import json
import os
import shutil
import subprocess
import sys
import tempfile
import time
import traceback

from . import tree

VERIF = tree.VERIF
KNOWN_FILE = os.path.join(VERIF, "KNOWN_FINDINGS.txt")


from .core import Ctx, HarnessError, Inconclusive, Part, Violation, innermost_repo_frame  # noqa: E402,F401


# ----------------------------------------------------------------------------- known findings


def load_known(prop):
    """-> list of dict(kind, part, bucket, witness, text) for this property."""
    out = []
    if not os.path.exists(KNOWN_FILE):
        return out
    for line in open(KNOWN_FILE, encoding="utf-8"):
        line = line.strip()
        if not line or line.startswith("#"):
            continue
        kind, _, rest = line.partition(":")
        kind = kind.strip()
        if kind not in ("known", "fixed"):
            continue
        head, _, text = rest.partition("::")
        fields = dict(f.split("=", 1) for f in head.split() if "=" in f)
        if fields.get("property") != prop:
            continue
        out.append(
            dict(kind=kind, part=fields.get("part"), bucket=fields.get("bucket"),
                 witness=fields.get("witness"), text=text.strip() or head.strip())
        )
    return out


# ----------------------------------------------------------------------------- worker side


def canonical(j):
    return json.dumps(j, sort_keys=True, separators=(",", ":"), ensure_ascii=True, default=repr)


class Collector:
    MAX_SAMPLES = 6

    def __init__(self, part, ctx, known_buckets):
        self.part, self.ctx, self.known = part, ctx, set(known_buckets)
        self.evaluations = 0
        self.nontrivial = set()
        self.labels = {}
        self.samples = []
        self.found = {}  # bucket -> dict(case, detail, size)
        self.known_hits = {}
        self.inconclusive = 0
        self.violating = 0
        self.bulk_nontrivial = 0  # cases counted by parts that run many inputs per generated case

    def one(self, case, target=None):
        """Run one case.  With target=None never raises for violations (collect mode);
        with a target bucket raises AssertionError iff that bucket fails (shrink mode)."""
        part, ctx = self.part, self.ctx
        try:
            info = part.run(case, ctx) or {}
        except Violation as v:
            b = v.bucket
            if target is not None:
                if b == target:
                    self._keep(b, case, v)
                    raise AssertionError(b) from None
                return
            self.evaluations += 1
            if b in self.known:
                self.known_hits[b] = self.known_hits.get(b, 0) + 1
                return
            self.violating += 1
            self._keep(b, case, v)
            return
        except Inconclusive:
            if target is None:
                self.evaluations += 1
                self.inconclusive += 1
            return
        if target is not None:
            return
        self.evaluations += info.get("count", 1)
        self.bulk_nontrivial += info.get("nontrivial_count", 0)
        for v, vcase in info.get("violations", ()):
            if v.bucket in self.known:
                self.known_hits[v.bucket] = self.known_hits.get(v.bucket, 0) + 1
            else:
                self.violating += 1
                self._keep(v.bucket, vcase, v)
        for lab, n in info.get("label_counts", {}).items():
            self.labels[lab] = self.labels.get(lab, 0) + n
        for lab in info.get("labels", ()):
            self.labels[lab] = self.labels.get(lab, 0) + 1
        if info.get("nontrivial"):
            enc = part.encode(case)
            h = hashlib.blake2b(canonical(enc).encode(), digest_size=8).hexdigest()
            if h not in self.nontrivial:
                self.nontrivial.add(h)
                if len(self.samples) < self.MAX_SAMPLES:
                    s = info.get("sample", enc)
                    txt = canonical(s)
                    if len(txt) > 1500:
                        s = {"truncated": txt[:1500]}
                    self.samples.append(s)

    def _keep(self, bucket, case, v):
        enc = self.part.encode(case)
        size = len(canonical(enc))
        old = self.found.get(bucket)
        if old is None or size < old["size"]:
            self.found[bucket] = dict(case=enc, detail=v.detail, size=size, clause=v.clause)

    def result(self):
        return dict(
            part=self.part.name, evaluations=self.evaluations, nontrivial=sorted(self.nontrivial),
            labels=self.labels, samples=self.samples, found=self.found, known_hits=self.known_hits,
            inconclusive=self.inconclusive, violating=self.violating, extra=self.ctx.extra,
            bulk_nontrivial=self.bulk_nontrivial,
        )


def cap_memory(gb=8):
    """soft address-space cap per process: a runaway allocation in the code under test becomes a
    MemoryError in that process instead of taking the machine down"""
    import resource

    try:
        hard = resource.getrlimit(resource.RLIMIT_AS)[1]
        soft = gb << 30
        if hard != resource.RLIM_INFINITY:
            soft = min(soft, hard)
        resource.setrlimit(resource.RLIMIT_AS, (soft, hard))
    except (ValueError, OSError):
        pass


class _StderrFilter:
    """drops execnet's own 'Warning: unhandled RemoteError' chatter (RemoteError.warn) - expected by the
    thousands in error-path checks - and passes everything else through"""

    def __init__(self, real):
        self.real = real

    def write(self, text):
        f = sys._getframe(1)
        if f.f_code.co_name == "warn" and f.f_code.co_filename.endswith("gateway_base.py"):
            return len(text)
        return self.real.write(text)

    def __getattr__(self, name):
        return getattr(self.real, name)


def worker_main(mod, partname, tier, seed, shard, nshards, budget, out):
    from . import core

    core.own_group()  # own process group: everything this shard starts can be found (and killed) at the end
    cap_memory()
    sys.stderr = _StderrFilter(sys.stderr)
    tree.use()
    part = next(p for p in mod.PARTS if p.name == partname)
    ctx = Ctx(mod.PROPERTY, tier, seed, shard, nshards, budget)
    ctx.scratch = tempfile.mkdtemp(prefix="verif-")
    known = [k["bucket"] for k in load_known(mod.PROPERTY) if k["kind"] == "known" and k["part"] in (None, partname)]
    col = Collector(part, ctx, known)
    status, err = "ok", None
    try:
        part.setup(ctx)
        strat = part.strategy(ctx)
        shard_seed = (seed * 1000003 + shard * 7919 + int(hashlib.md5(partname.encode()).hexdigest()[:6], 16)) % (2**63)
        if strat is None:
            for case in part.cases(ctx):
                col.one(case)
        else:
            run_hypothesis(col, strat, shard_seed, budget)
            limit = part.shrink_seconds.get(tier, 20)
            for b in list(col.found)[:4]:
                shrink_bucket(col, strat, shard_seed, budget, b, limit)
    except BaseException as e:  # noqa: BLE001 - anything escaping a part is a harness error
        status, err = "harness-error", "".join(traceback.format_exception(type(e), e, e.__traceback__))
    finally:
        try:
            part.teardown(ctx)
        except BaseException as e:  # noqa: BLE001
            if status == "ok":
                status, err = "harness-error", "teardown: " + repr(e)
        shutil.rmtree(ctx.scratch, ignore_errors=True)
    # no process started by this shard may outlive it (a leaked worker would also keep our stdout/stderr open)
    from .core import kill_leftovers

    n_leaked = kill_leftovers()
    res = col.result()
    res["extra"]["processes_killed_at_shard_end"] = n_leaked
    res.update(status=status, error=err, shard=shard)
    with open(out, "w") as f:
        json.dump(res, f)
    return 0 if status == "ok" else 2


def _settings(n, phases=None):
    from hypothesis import HealthCheck, Phase, settings

    kw = dict(max_examples=max(1, n), database=None, deadline=None, derandomize=False,
              report_multiple_bugs=False, suppress_health_check=list(HealthCheck),
              print_blob=False)
    kw["phases"] = phases or [Phase.generate]
    return settings(**kw)


class _Box:
    """keeps Hypothesis from building a repr of large generated cases"""

    __slots__ = ("case",)

    def __init__(self, case):
        self.case = case

    def __repr__(self):
        return "<case>"


def run_hypothesis(col, strat, shard_seed, budget):
    import hypothesis
    from hypothesis import given

    # Hypothesis always starts with the simplest example of the strategy: with one or two cases per shard every shard
    # would run that same case, so only shard 0 keeps it
    skip = [0 if col.ctx.shard == 0 else 1]

    @hypothesis.seed(shard_seed)
    @_settings(budget + skip[0])
    @given(strat.map(_Box))
    def collect(box):
        if skip[0]:
            skip[0] = 0
            return
        col.one(box.case)

    collect()


def shrink_bucket(col, strat, shard_seed, budget, bucket, limit):
    """Re-run the same generation with only `bucket` failing so that Hypothesis shrinks it;
    the smallest failing case seen (by canonical JSON size) is kept in col.found."""
    import hypothesis
    from hypothesis import Phase, given

    t_end = time.time() + limit
    extra = 0 if col.ctx.shard == 0 else 1

    @hypothesis.seed(shard_seed)
    @_settings(budget + extra, phases=[Phase.generate, Phase.shrink])
    @given(strat.map(_Box))
    def hunt(box):
        if time.time() > t_end:
            return
        col.one(box.case, target=bucket)

    try:
        hunt()
    except BaseException:  # noqa: BLE001 - AssertionError / Flaky / anything: col.found holds the best
        pass


# ----------------------------------------------------------------------------- parent side


def run_case_direct(mod, partname, enc, tier="quick", seed=0):
    """Run one encoded case in this process. -> (None | Violation | 'inconclusive')"""
    tree.use()
    part = next(p for p in mod.PARTS if p.name == partname)
    ctx = Ctx(mod.PROPERTY, tier, seed)
    ctx.scratch = tempfile.mkdtemp(prefix="verif-")
    ctx.replay = True
    try:
        part.setup(ctx)
        try:
            res = part.run(part.decode(enc), ctx)
            if isinstance(res, dict) and res.get("violations"):
                return res["violations"][0][0]
        except Violation as v:
            return v
        except Inconclusive:
            return "inconclusive"
        finally:
            part.teardown(ctx)
    finally:
        shutil.rmtree(ctx.scratch, ignore_errors=True)
    return None


def replay_file(mod, path):
    with open(path) as f:
        rec = json.load(f)
    return rec, run_case_direct(mod, rec["part"], rec["case"])


def write_replay(prop, part, bucket, rec):
    d = os.path.join(VERIF, "replays", prop)
    os.makedirs(d, exist_ok=True)
    body = dict(property=prop, part=part, bucket=bucket, clause=rec.get("clause"),
                detail=rec["detail"], case=rec["case"])
    h = hashlib.md5(canonical([part, bucket]).encode()).hexdigest()[:12]
    path = os.path.join(d, f"{part}-{h}.json")
    with open(path, "w") as f:
        json.dump(body, f, indent=1, sort_keys=True)
    return os.path.relpath(path, VERIF)


def main(argv=None):
    ap = argparse.ArgumentParser()
    ap.add_argument("prop")
    ap.add_argument("--tier", default=os.environ.get("VERIF_TIER", "quick"), choices=["quick", "thorough"])
    ap.add_argument("--replay")
    ap.add_argument("--part", action="append")
    ap.add_argument("--shards", type=int, default=int(os.environ.get("VERIF_SHARDS", "0")))
    ap.add_argument("--scale", type=float, default=float(os.environ.get("VERIF_SCALE", "1")))
    ap.add_argument("--worker", nargs=5, metavar=("PART", "SHARD", "NSHARDS", "BUDGET", "OUT"))
    args = ap.parse_args(argv)
    prop = args.prop.upper()
    seed = int(os.environ.get("VERIF_SEED", "1") or "1")
    try:
        tree.use()
        mod = importlib.import_module("checks." + prop.lower())
    except Exception:
        traceback.print_exc()
        print(f"HARNESS-ERROR property={prop} cannot load check")
        return 2

    if args.worker:
        pn, sh, ns, bu, out = args.worker
        return worker_main(mod, pn, args.tier, seed, int(sh), int(ns), int(bu), out)

    if args.replay:
        from . import core

        core.own_group()
        try:
            rec, res = replay_file(mod, args.replay)
        except Exception:
            traceback.print_exc()
            return 2
        if isinstance(res, Violation):
            print(f"replay: {res.bucket}\n  {res.detail}")
            print(f"VIOLATION property={prop} replay={args.replay}")
            return 1
        print("replay:", "inconclusive" if res == "inconclusive" else "holds")
        return 2 if res == "inconclusive" else 0

    cap_memory()
    from . import core

    core.own_group()
    t0 = time.time()
    violations = []  # (part, bucket, replay path, detail)
    known_lines = []
    harness_errors = []
    known = load_known(prop)

    # 1. regression replays (witnesses of fixed and known findings) come first, in every tier
    regdir = os.path.join(VERIF, "regress", prop)
    known_by_witness = {k["witness"]: k for k in known if k["kind"] == "known" and k["witness"]}
    n_regress = 0
    if os.path.isdir(regdir):
        for fn in sorted(os.listdir(regdir)):
            if not fn.endswith(".json"):
                continue
            rel = os.path.join("regress", prop, fn)
            try:
                rec, res = replay_file(mod, os.path.join(VERIF, rel))
            except Exception:
                harness_errors.append(f"regress {rel}: " + traceback.format_exc())
                continue
            n_regress += 1
            if isinstance(res, Violation):
                k = known_by_witness.get(rel)
                if k is not None and k["bucket"] in (None, res.bucket):
                    known_lines.append(f"KNOWN-FINDING: property={prop} {k['text']}")
                else:
                    violations.append((rec["part"], res.bucket, rel, res.detail))

    # 2. the search itself
    parts = [p for p in mod.PARTS if not args.part or p.name in args.part]
    ncpu = os.cpu_count() or 1
    merged = {}
    tmp = tempfile.mkdtemp(prefix="verif-run-")
    try:
        for part in parts:
            total = int(part.budget[args.tier] * args.scale) or 1
            ns = args.shards or min(part.max_shards, ncpu, max(1, total // max(1, getattr(part, "min_per_shard", 25))))
            per = -(-total // ns)
            procs = []
            for sh in range(ns):
                out = os.path.join(tmp, f"{part.name}-{sh}.json")
                cmd = [sys.executable, "-X", "faulthandler", "-m", "vlib.runner", prop, "--tier", args.tier,
                       "--worker", part.name, str(sh), str(ns), str(per), out]
                procs.append((sh, out, subprocess.Popen(cmd, cwd=VERIF)))
            m = dict(evaluations=0, nontrivial=set(), labels={}, samples=[], found={}, known_hits={},
                     inconclusive=0, violating=0, extra={}, shards=ns, bulk=0)
            for sh, out, p in procs:
                rc = p.wait()
                if not os.path.exists(out):
                    harness_errors.append(f"part {part.name} shard {sh}: worker died rc={rc}")
                    continue
                with open(out) as f:
                    r = json.load(f)
                if r["status"] != "ok":
                    harness_errors.append(f"part {part.name} shard {sh}: {r['error']}")
                m["evaluations"] += r["evaluations"]
                m["nontrivial"].update(r["nontrivial"])
                m["inconclusive"] += r["inconclusive"]
                m["violating"] += r["violating"]
                m["bulk"] += r.get("bulk_nontrivial", 0)
                for k, v in r["labels"].items():
                    m["labels"][k] = m["labels"].get(k, 0) + v
                for k, v in r["known_hits"].items():
                    m["known_hits"][k] = m["known_hits"].get(k, 0) + v
                for k, v in r["extra"].items():
                    if isinstance(v, (int, float)):
                        m["extra"][k] = m["extra"].get(k, 0) + v
                    else:
                        m["extra"][k] = v
                if len(m["samples"]) < 8:
                    m["samples"].extend(r["samples"][: max(1, 8 // ns)])
                for b, rec in r["found"].items():
                    if b not in m["found"] or rec["size"] < m["found"][b]["size"]:
                        m["found"][b] = rec
            merged[part.name] = m
            for b, rec in sorted(m["found"].items()):
                path = write_replay(prop, part.name, b, rec)
                violations.append((part.name, b, path, rec["detail"]))
    finally:
        shutil.rmtree(tmp, ignore_errors=True)

    # 3. evidence
    wall = time.time() - t0
    evaluations = sum(m["evaluations"] for m in merged.values()) + n_regress
    distinct = sum(len(m["nontrivial"]) + m["bulk"] for m in merged.values())
    samples = []
    for name, m in merged.items():
        for s in m["samples"][:4]:
            samples.append({"part": name, "case": s})
    per_part = {
        name: dict(evaluations=m["evaluations"], distinct_nontrivial=len(m["nontrivial"]) + m["bulk"], shards=m["shards"],
                   labels=dict(sorted(m["labels"].items())), inconclusive=m["inconclusive"],
                   known_finding_hits=m["known_hits"], extra=m["extra"],
                   thin_labels=[k for k in getattr(next(p for p in parts if p.name == name), "expect_labels", ())
                                if m["labels"].get(k, 0) < max(1, m["evaluations"] // 200)])
        for name, m in merged.items()
    }
    ev = dict(
        property_id=prop, tier=args.tier, seed=seed, level="exploration",
        coverage=dict(evaluations=evaluations, distinct_nontrivial=distinct, rule=getattr(mod, "RULE", ""),
                      samples=samples or [{"note": "no non-trivial sample recorded"}], parts=per_part,
                      regression_replays=n_regress, exhaustive=False,
                      known_findings=[k for k in known_lines]),
        assumptions=list(getattr(mod, "ASSUMPTIONS", [])),
        wall_s=round(wall, 2), violations=len(violations),
    )
    if hasattr(mod, "evidence_extra"):
        try:
            ev["coverage"].update(mod.evidence_extra(merged))
        except Exception:
            harness_errors.append("evidence_extra: " + traceback.format_exc())
    os.makedirs(os.path.join(VERIF, "evidence"), exist_ok=True)
    # evidence describes /repo itself: a run against a scratch copy (VERIF_REPO, used for sensitivity runs) never rewrites it
    partial = bool(args.part) or args.scale != 1 or bool(args.shards) or os.path.realpath(tree.REPO) != "/repo"
    evname = f".partial-{prop}.json" if partial else f"{prop}.json"  # only full runs rewrite the real evidence
    with open(os.path.join(VERIF, "evidence", evname), "w") as f:
        json.dump(ev, f, indent=1, sort_keys=True, default=repr)

    # 4. verdict
    for line in known_lines:
        print(line)
    for name, m in merged.items():
        thin = per_part[name]["thin_labels"]
        print(f"[{prop}/{name}] cases={m['evaluations']} nontrivial={len(m['nontrivial']) + m['bulk']} "
              f"inconclusive={m['inconclusive']} violating={m['violating']} known_hits={sum(m['known_hits'].values())}"
              + (f" THIN={thin}" if thin else ""))
    for part, b, path, detail in violations:
        print(f"  bucket {b}\n    {detail[:600]}")
        print(f"VIOLATION property={prop} replay={path}")
    for e in harness_errors:
        print("HARNESS-ERROR", e[:3000])
    if violations:
        return 1
    if harness_errors:
        return 2
    tot_inc = sum(m["inconclusive"] for m in merged.values())
    if evaluations and tot_inc > 0.2 * evaluations:
        print(f"INCONCLUSIVE property={prop}: {tot_inc} of {evaluations} cases hit a budget")
        return 2
    print(f"OK property={prop} tier={args.tier} seed={seed} cases={evaluations} distinct_nontrivial={distinct} wall={wall:.1f}s")
    return 0


if __name__ == "__main__":
    sys.exit(main())
