"""E1 - value grammar of the execnet serializer, unsupported leaves, type-exact fingerprint,
loss-free tagged JSON codec.  Shares nothing with execnet."""
from __future__ import annotations

import struct

try:
    from hypothesis import strategies as st
except ImportError:  # helper interpreters only need fp / to_json / from_json
    st = None

# ----------------------------------------------------------------------------- fingerprint


def fbits(x: float) -> int:
    return int.from_bytes(struct.pack(">d", x), "big")


def fp(v):
    """Type-exact fingerprint: equal iff same type at every position, same dict order,
    same float bit patterns."""
    t = type(v)
    if v is None:
        return ("None",)
    if t is bool:
        return ("bool", v)
    if t is int:
        return ("int", hex(v))  # hex: no digit limit, and the fingerprint stays sortable via repr
    if t is float:
        return ("float", fbits(v))
    if t is complex:
        return ("complex", fbits(v.real), fbits(v.imag))
    if t is bytes:
        return ("bytes", v)
    if t is str:
        return ("str", tuple(map(ord, v)))
    if t is list:
        return ("list", tuple(fp(x) for x in v))
    if t is tuple:
        return ("tuple", tuple(fp(x) for x in v))
    if t is dict:
        return ("dict", tuple((fp(k), fp(x)) for k, x in v.items()))
    if t is set:
        return ("set", tuple(sorted((fp(x) for x in v), key=repr)))
    if t is frozenset:
        return ("frozenset", tuple(sorted((fp(x) for x in v), key=repr)))
    return ("OTHER", t.__module__, t.__qualname__, id(v))


def only_supported(v) -> bool:
    t = type(v)
    if v is None or t in (bool, int, float, complex, bytes, str):
        return True
    if t in (list, tuple, set, frozenset):
        return all(only_supported(x) for x in v)
    if t is dict:
        return all(only_supported(k) and only_supported(x) for k, x in v.items())
    return False


# ----------------------------------------------------------------------------- JSON codec


def to_json(v):
    t = type(v)
    if v is None or t is bool:
        return v
    if t is int:
        return v if -(2**53) < v < 2**53 else {"i": hex(v)}
    if t is float:
        return {"f": "%016x" % fbits(v)}
    if t is complex:
        return {"c": ["%016x" % fbits(v.real), "%016x" % fbits(v.imag)]}
    if t is bytes:
        return {"b": v.hex()}
    if t is str:
        try:
            v.encode("utf-8")
            return v
        except UnicodeEncodeError:
            return {"s": [ord(c) for c in v]}
    if t is list:
        return {"l": [to_json(x) for x in v]}
    if t is tuple:
        return {"t": [to_json(x) for x in v]}
    if t is dict:
        return {"d": [[to_json(k), to_json(x)] for k, x in v.items()]}
    if t is set:
        return {"S": _sorted_json(v)}
    if t is frozenset:
        return {"F": _sorted_json(v)}
    return {"u": getattr(v, "_verif_leaf", "?" + t.__name__)}


def _sorted_json(s):
    import json

    return sorted((to_json(x) for x in s), key=lambda j: json.dumps(j, sort_keys=True))


def from_json(j):
    if j is None or isinstance(j, (bool, int, str)):
        return j
    if isinstance(j, float):
        return j
    (k, x), = j.items()
    if k == "i":
        return int(x, 16)
    if k == "f":
        return struct.unpack(">d", bytes.fromhex(x))[0]
    if k == "c":
        return complex(struct.unpack(">d", bytes.fromhex(x[0]))[0], struct.unpack(">d", bytes.fromhex(x[1]))[0])
    if k == "b":
        return bytes.fromhex(x)
    if k == "s":
        return "".join(map(chr, x))
    if k == "l":
        return [from_json(e) for e in x]
    if k == "t":
        return tuple(from_json(e) for e in x)
    if k == "d":
        return {from_json(a): from_json(b) for a, b in x}
    if k == "S":
        return {from_json(e) for e in x}
    if k == "F":
        return frozenset(from_json(e) for e in x)
    if k == "u":
        return make_unsupported(x)
    raise ValueError(j)


# ----------------------------------------------------------------------------- supported values

EDGE_INTS = sorted(
    {s * (2**k) + d for s in (1, -1) for k in (7, 8, 15, 16, 31, 32, 63, 64, 127, 128) for d in (-2, -1, 0, 1, 2)}
    | {0, 1, -1}
)


def ints(big_digits=False):
    parts = [
        st.integers(-1000, 1000),
        st.sampled_from(EDGE_INTS),
        st.integers(-(2**31) - 5, -(2**31) + 5),
        st.integers(2**31 - 5, 2**31 + 5),
        st.integers(1, 2000).flatmap(lambda b: st.integers(-(2**b), 2**b)),
    ]
    if big_digits:
        parts.append(
            st.tuples(st.sampled_from([4299, 4300, 4301, 5000, 20000]), st.integers(-9, 9), st.booleans()).map(
                lambda t: (-1 if t[2] else 1) * (10 ** t[0] + t[1])
            )
        )
    return st.one_of(parts)


def floats():
    return st.one_of(
        st.floats(allow_nan=True, allow_infinity=True),
        st.sampled_from([0.0, -0.0, float("inf"), float("-inf"), float("nan"), 5e-324, -5e-324, 1.7976931348623157e308]),
        st.binary(min_size=8, max_size=8).map(lambda b: struct.unpack(">d", b)[0]),  # NaN payloads, subnormals
    )


def texts(max_size=40):
    # all unicode scalar values: everything except surrogates (category Cs)
    return st.one_of(
        st.text(st.characters(exclude_categories=("Cs",)), max_size=max_size),
        st.text(st.sampled_from("\x00\x7f\x80\xffĀ߿ࠀ￿\U00010000\U0010ffff aé\n"), max_size=max_size),
    )


def scalars(big_digits=False):
    return st.one_of(
        st.none(), st.booleans(), ints(big_digits), floats(),
        st.builds(complex, floats(), floats()),
        st.binary(max_size=40), texts(),
    )


def hashables(big_digits=False):
    base = scalars(big_digits)
    return st.recursive(
        base,
        lambda ch: st.one_of(st.lists(ch, max_size=3).map(tuple), st.frozensets(ch, max_size=3)),
        max_leaves=6,
    )


def values(big_digits=False, max_leaves=25):
    h = hashables(big_digits)

    def extend(ch):
        return st.one_of(
            st.lists(ch, max_size=5),
            st.lists(ch, max_size=5).map(tuple),
            st.dictionaries(h, ch, max_size=5),
            st.sets(h, max_size=4),
            st.frozensets(h, max_size=4),
        )

    return st.recursive(st.one_of(scalars(big_digits), h), extend, max_leaves=max_leaves)


def deep_chain():
    """nesting 1..100 of single-element containers around a scalar"""

    def build(t):
        kinds, leaf = t
        v = leaf
        for k in kinds:
            if k == 0:
                v = [v]
            elif k == 1:
                v = (v,)
            elif k == 2:
                v = {"k": v}
            else:
                v = [v, ()]
        return v

    return st.tuples(st.lists(st.integers(0, 3), min_size=1, max_size=100), scalars()).map(build)


def all_values(big_digits=False):
    plain = values(False)
    return st.one_of(plain, plain, plain, plain, plain, values(big_digits, max_leaves=8), deep_chain(),
                     st.sampled_from([[], (), {}, set(), frozenset(), [[]], ((),), {(): []}, "", b""]))


def nontrivial_value(v) -> bool:
    """contains a container, or an int outside +-2**31, or a float special, or a non-ASCII str"""
    t = type(v)
    if t in (list, tuple, dict, set, frozenset):
        return True
    if t is int:
        return not (-(2**31) <= v < 2**31)
    if t is float:
        return v != v or v in (float("inf"), float("-inf")) or (v == 0 and fbits(v) != 0)
    if t is str:
        return any(ord(c) > 127 for c in v)
    return False


def classify(v, labels=None):
    if labels is None:
        labels = set()
    t = type(v)
    labels.add("type:" + t.__name__)
    if t is int and type(v) is int:
        if v > 2**31 - 1:
            labels.add("int>2**31-1")
        elif v < -(2**31):
            labels.add("int<-2**31")
        if abs(v) >= 10**4299:
            labels.add("int>4299digits")
    if t is float:
        if v != v:
            labels.add("float:nan")
        elif v == 0 and fbits(v):
            labels.add("float:-0.0")
        elif v in (float("inf"), float("-inf")):
            labels.add("float:inf")
    if t is str and any(ord(c) > 0xFFFF for c in v):
        labels.add("str:astral")
    if t in (list, tuple, set, frozenset):
        if not v:
            labels.add("empty:" + t.__name__)
        for x in v:
            classify(x, labels)
    if t is dict:
        if not v:
            labels.add("empty:dict")
        for k, x in v.items():
            if type(k) in (tuple, frozenset):
                labels.add("dictkey:" + type(k).__name__)
            classify(k, labels)
            classify(x, labels)
    return labels


def depth(v) -> int:
    t = type(v)
    if t in (list, tuple, set, frozenset):
        return 1 + max((depth(x) for x in v), default=0)
    if t is dict:
        return 1 + max((max(depth(k), depth(x)) for k, x in v.items()), default=0)
    return 0


# ----------------------------------------------------------------------------- unsupported leaves


def _mk_user_instance():
    class Foo:
        pass

    return Foo()


def _sub(base, name=None, *args):
    cls = type(name or ("My" + base.__name__.capitalize()), (base,), {})
    return cls(*args)


def _namedtuple():
    import collections

    return collections.namedtuple("P", "x y")(1, 2)


def _intenum():
    import enum

    class Color(enum.IntEnum):
        RED = 1

    return Color.RED


UNSUPPORTED = {
    "object": lambda: object(),
    "instance": _mk_user_instance,
    "int_subclass": lambda: _sub(int, None, 7),
    "str_subclass": lambda: _sub(str, None, "x"),
    "float_subclass": lambda: _sub(float, None, 1.5),
    "bytes_subclass": lambda: _sub(bytes, None, b"x"),
    "tuple_subclass": lambda: _sub(tuple, None, (1, 2)),
    "list_subclass": lambda: _sub(list, None, [1]),
    "dict_subclass": lambda: _sub(dict, None, {1: 2}),
    "set_subclass": lambda: _sub(set, None, {1}),
    "frozenset_subclass": lambda: _sub(frozenset, None, {1}),
    "intenum": _intenum,
    "namedtuple": _namedtuple,
    "ordereddict": lambda: __import__("collections").OrderedDict(a=1),
    "defaultdict": lambda: __import__("collections").defaultdict(int, a=1),
    "bytearray": lambda: bytearray(b"ab"),
    "memoryview": lambda: memoryview(b"ab"),
    "range": lambda: range(3),
    "decimal": lambda: __import__("decimal").Decimal("1.5"),
    "fraction": lambda: __import__("fractions").Fraction(1, 3),
    "datetime": lambda: __import__("datetime").datetime(2020, 1, 1),
    "array": lambda: __import__("array").array("i", [1, 2]),
    "deque": lambda: __import__("collections").deque([1]),
    "function": lambda: _mk_user_instance,
    "builtin_function": lambda: len,
    "type": lambda: int,
    "ellipsis": lambda: Ellipsis,
    "notimplemented": lambda: NotImplemented,
    "lone_surrogate": lambda: "a\ud800b",
    "lone_low_surrogate": lambda: "\udfff",
    # impostors: subclasses whose __name__ equals a name the encoder can dispatch on
    "impostor_list": lambda: _sub(list, "list", [1, 2]),
    "impostor_int": lambda: _sub(int, "int", 5),
    "impostor_long": lambda: _sub(int, "long", 5),
    "impostor_dict": lambda: _sub(dict, "dict", {1: 2}),
    "impostor_tuple": lambda: _sub(tuple, "tuple", (1,)),
    "impostor_str": lambda: _sub(str, "str", "s"),
    "impostor_float": lambda: _sub(float, "float", 1.0),
    "impostor_bytes": lambda: _sub(bytes, "bytes", b"b"),
    "impostor_set": lambda: _sub(set, "set", {1}),
    "impostor_frozenset": lambda: _sub(frozenset, "frozenset", {1}),
    "impostor_bool_named_int": lambda: _sub(int, "bool", 1),
    "impostor_NoneType": lambda: type("NoneType", (), {})(),
    "impostor_Channel": lambda: type("Channel", (), {"id": 7})(),
    "impostor_complex": lambda: _sub(complex, "complex", 1j),
}

HASHABLE_LEAVES = {
    "object", "instance", "int_subclass", "str_subclass", "float_subclass", "bytes_subclass", "tuple_subclass",
    "frozenset_subclass", "intenum", "namedtuple", "range", "decimal", "fraction", "datetime", "function",
    "builtin_function", "type", "ellipsis", "notimplemented", "lone_surrogate", "lone_low_surrogate",
    "impostor_int", "impostor_long", "impostor_tuple", "impostor_str", "impostor_float", "impostor_bytes",
    "impostor_frozenset", "impostor_bool_named_int", "impostor_NoneType", "impostor_Channel", "impostor_complex",
}


def make_unsupported(name):
    if name.startswith("surrogate:"):  # a str that is not UTF-8 encodable: any lone surrogate, any position
        _, cp, pos = name.split(":")
        c = chr(int(cp, 16))
        return {"0": c, "1": "ab" + c, "2": "a" + c + "\u20ac", "3": c + c}[pos]
    v = UNSUPPORTED[name]()
    try:
        v._verif_leaf = name
    except (AttributeError, TypeError):
        pass
    return v


def unsupported_cases():
    """-> strategy of (skeleton_json, position_kind, leaf_name): a supported value in which exactly one
    position is replaced by an unsupported leaf.  Built by construction as a *path*:
    a list of wrappers applied around the leaf."""
    wrappers = st.lists(
        st.sampled_from(["list", "tuple", "dictvalue", "dictkey", "set", "frozenset", "list_mid", "tuple_mid"]),
        max_size=4,
    )
    surrogate = st.tuples(st.integers(0xD800, 0xDFFF), st.integers(0, 3)).map(lambda t: "surrogate:%04x:%d" % t)
    leaf = st.one_of(st.sampled_from(sorted(UNSUPPORTED)), st.sampled_from(sorted(UNSUPPORTED)),
                     st.sampled_from(sorted(UNSUPPORTED)), surrogate)
    return st.tuples(wrappers, leaf, values(max_leaves=5))


def build_unsupported(case):
    """case = (wrappers, leafname, filler) -> (value, depth) ; wrappers needing hashability are
    replaced by 'list' when the current value is unhashable"""
    wrappers, leafname, filler = case
    v = make_unsupported(leafname)
    hashable = leafname in HASHABLE_LEAVES or leafname.startswith("surrogate:")
    for w in wrappers:
        if w in ("dictkey", "set", "frozenset") and not hashable:
            w = "list"
        if w == "list":
            v, hashable = [v], False
        elif w == "list_mid":
            v, hashable = [filler, v, filler], False
        elif w == "tuple":
            v = (v,)
        elif w == "tuple_mid":
            try:
                hash(filler)
                fh = True
            except TypeError:
                fh = False
            v, hashable = (filler, v, 1), hashable and fh
        elif w == "dictvalue":
            v, hashable = {"k": 1, "bad": v}, False
        elif w == "dictkey":
            v, hashable = {v: filler}, False
        elif w == "set":
            v, hashable = {v}, False
        elif w == "frozenset":
            v = frozenset([v])
    return v, len(wrappers)
