"""Exhaustive single-preemption exploration on top of the bounded-preemption scheduler mode.

For a deterministic scenario whose traced run executes N source lines (optionally only lines inside a
*focus* set of functions), enumerate every pair (line, alternative thread): the thread running at that
line is preempted there, the chosen other runnable thread takes over and runs until it blocks, after which
the default policy continues.  `run(line, alt)` must execute the scenario with
``sparse=dict(pre=[], blk=[], line_pick=alt)`` and ``preempt_at=(line,)`` and return an object with
``.sched.preempt_cands`` (number of candidates seen at the preemption, None if the line was never reached)."""
from __future__ import annotations

from .core import Inconclusive, Violation


ORDERS = ("old", "new")


def single_preemptions(run_and_judge, n_lines, stride=1, offset=0, max_alts=8, max_runs=None, order=0):
    """-> (runs, [(Violation, (line, alt)), ...], inconclusive)
    alt encodes (index of the thread that takes over, mode, order): alt = (2*index + m) * 2 + order;
    m=0 'delay' (the preempted thread stays suspended until nothing else can run), m=1 'yield' (it competes again as
    soon as the other one blocks); order 0/1 = default policy at free choices: oldest / newest runnable thread first.
    `n_lines` is the traced length of the unpreempted run under the same `order`."""
    runs, viol, inconclusive = 0, [], 0
    from . import detsched

    # lines of functions the reference tree does not have (new code) are always tried, whatever the stride
    novel = [ln for ln in detsched.LAST.get("novel", ()) if ln <= n_lines]
    if len(novel) > 120:
        novel = novel[:: -(-len(novel) // 120)]
    strided = range(1 + offset % max(1, stride), n_lines + 1, max(1, stride))
    lines = novel + [ln for ln in strided if ln not in set(novel)] if stride > 1 else list(strided)
    for line in lines:
        if max_runs is not None and runs >= max_runs + 8 * len(novel):
            break  # case-count bound of the quick tier (deterministic); the thorough tier has none
        for index in range(max_alts):
            n_c = None
            for m in (0, 1):
                alt = (2 * index + m) * 2 + order
                runs += 1
                sched = None
                try:
                    sched = run_and_judge(line, alt)
                except Violation as v:
                    viol.append((v, (line, alt)))
                    sched = getattr(v, "sched", None)
                except Inconclusive:
                    inconclusive += 1
                n_c = getattr(sched, "preempt_cands", None) if sched is not None else None
                if n_c is None or n_c <= 1:
                    break  # line not reached / nobody else runnable there: the mode makes no difference
            if n_c is None or index + 1 >= n_c - 1:
                break
    return runs, viol, inconclusive


def line_sparse(alt):
    order = ORDERS[alt % 2]
    alt //= 2
    return dict(pre=[], blk=[], line_pick=alt // 2, line_mode="delay" if alt % 2 == 0 else "yield", order=order)


def base_sparse(order=0):
    return dict(pre=[], blk=[], order=ORDERS[order])


def plan_stride(n_lines, tier, target_runs=600):
    """thorough: every line; quick: an evenly spaced subset sized so that about `target_runs` runs result
    (each line costs about 1.6 runs: alternatives x delay/yield)"""
    if tier == "thorough":
        return 1
    return max(1, -(-int(n_lines * 1.6) // target_runs))


def double_preemptions(run_and_judge, n_lines, max_runs=None):
    """every PAIR of preemption lines i < j (both in 'delay' mode, first alternative thread) of a scenario traced under
    a narrow focus -> (runs, [(Violation, (i, j)), ...], inconclusive).  Affordable only when n_lines is small
    (a few dozen): meant for two-function focus sets such as {allocation under a lock} x {iteration of the same table}."""
    runs, viol, inconclusive = 0, [], 0
    for i in range(1, n_lines + 1):
        for j in range(i + 1, n_lines + 1):
            if max_runs is not None and runs >= max_runs:
                return runs, viol, inconclusive
            runs += 1
            try:
                run_and_judge(i, j)
            except Violation as v:
                viol.append((v, (i, j)))
            except Inconclusive:
                inconclusive += 1
    return runs, viol, inconclusive
