"""E3 - deterministic scheduler implemented as an execnet ExecModel.

execnet takes every thread, lock, event, queue and sleep from ``io.execmodel``.  ``SchedExecModel``
hands out primitives under which exactly one *managed* thread runs at a time: every primitive
operation (and every scripted transport read/write, see wires_sched.py) is a scheduling point at
which the thread parks and the controller picks who runs next from a generated list of small
integers (``choices``; exhausted => 0 => keep running the current thread).  Optionally managed
threads run under ``sys.settrace`` and are additionally preempted at generated *source-line*
indices inside the tree under test.  Time is virtual: a timed wait expires only when nothing is
runnable (earliest deadline first).  A run is a pure function of (scenario, choices, preemptions).

Outcomes of ``Scheduler.run()``: returns normally (all must-finish threads ended), raises
``Deadlock`` (a must-finish thread is blocked, nothing runnable, no deadline pending) or
``StepBudget`` (inconclusive).  ``shutdown()`` unwinds every parked thread with ``Abort`` and joins.
"""
from __future__ import annotations

import _thread
import collections
import os
import sys
import threading
import types

from . import tree

RUNNABLE, BLOCKED, FINISHED = "R", "B", "F"


class Abort(BaseException):
    """raised inside parked threads at teardown"""


class ProcessExit(BaseException):
    """stands for os._exit() of an in-process 'worker process'"""


class Deadlock(Exception):
    def __init__(self, blocked, stacks):
        super().__init__(f"blocked forever: {blocked}")
        self.blocked = blocked
        self.stacks = stacks


class _Focus:
    """membership test for the focus set: the named functions, plus every function (by qualified name) that the reference tree does not have"""

    def __init__(self, names, known):
        self.names, self.known = frozenset(names), known

    def __contains__(self, code):
        return code.co_name in self.names or code.co_qualname not in self.known


_BASELINE = None
LAST = {"novel": []}


def _baseline_names():
    global _BASELINE
    if _BASELINE is None:
        with open(os.path.join(os.path.dirname(__file__), "baseline_names.txt")) as f:
            _BASELINE = frozenset(f.read().split("\n"))
    return _BASELINE


class StepBudget(Exception):
    pass


class MThread:
    def __init__(self, sched, fn, args, name, must_finish):
        self.sched, self.fn, self.args, self.name = sched, fn, args, name
        self.must_finish = must_finish
        self.state = RUNNABLE
        self.pred = None
        self.deadline = None
        self.timed_out = False
        self.go = _thread.allocate_lock()
        self.go.acquire()
        self.exc = None
        self.waiting_on = None
        self.os = threading.Thread(target=self._boot, daemon=True, name="m-" + name)
        self.os.start()

    def _boot(self):
        self.go.acquire()
        s = self.sched
        s.tls.me = self
        try:
            if s.aborting:
                raise Abort()
            if s.tracer is not None:
                sys.settrace(s.tracer)
            self.fn(*self.args)
        except Abort:
            pass
        except ProcessExit:
            pass
        except BaseException as e:  # noqa: BLE001
            self.exc = e
        finally:
            sys.settrace(None)
            self.state = FINISHED
            if s.aborting:
                s.back.release()
            else:
                s._switch(self)  # pass the baton


class Scheduler:
    def __init__(self, choices=(), max_steps=400000, preempt_at=(), record=False, sparse=None):
        """choices: dense mode - one generated int per decision that has more than one candidate.
        sparse:  {"pre": [[skip, pick], ...], "blk": [int, ...]} - bounded-preemption mode for long
                 scenarios: the running thread keeps running (O(1) per scheduling point) until `skip`
                 scheduling points have passed, then it is preempted in favour of another runnable thread
                 chosen by `pick`; whenever the running thread blocks or ends, the next one is chosen by the
                 next `blk` int.  Exhausted lists mean: never preempt / first candidate."""
        self.threads = []
        self.choices = list(choices)
        self.ci = 0
        self.sparse = None
        if sparse is not None:
            self.sparse = True
            self.pre = [list(x) for x in sparse.get("pre", [])]
            self.blk = list(sparse.get("blk", []))
            self.pi = 0
            self.bi = 0
            self.countdown = self.pre[0][0] if self.pre else -1
            self.preemptions = 0
            # which of the other runnable threads takes over at a forced line-level preemption (index into
            # the other candidates); None: taken from `blk`
            self.line_pick = sparse.get("line_pick")
            self.preempt_cands = None  # number of candidates seen at the (last) forced line preemption
            # "delay": the preempted thread stays suspended until no other thread can run (one preemption =
            # one long delay); "yield": it competes again as soon as the thread that took over blocks
            self.line_mode = sparse.get("line_mode", "delay")
            self.delayed = None
            # default policy when a free choice is not covered by `blk`: "old" = the runnable thread that was
            # created first, "new" = the one created last
            self.order = sparse.get("order", "old")
        self.now = 0.0
        self.tls = threading.local()
        self.back = _thread.allocate_lock()
        self.back.acquire()
        self.aborting = False
        self.steps = 0
        self.max_steps = max_steps
        self.switches = 0
        self.last = None
        self.names = collections.Counter()
        # line-level preemption
        self.lines = 0
        self.preempt_at = set(preempt_at)
        self.preempt_fired = 0
        self.force_other = False
        self.tracer = None
        self.record = record
        self.trace = []  # (step, thread, op, where) when record
        self.escalations = []  # os.kill / os._exit attempts of in-process workers
        self.counting = True  # line counting (and line preemption) can be switched on late: counting=False and
        self.count_from = None  # count_from=<virtual time>: lines are numbered from that instant on
        self.expired = []  # timed waits (not sleeps) that ended by their timeout: (thread, op, timeout, condition true by then)
        self.marks = {}  # free-form named step markers set by scenarios (for non-triviality rules)
        self.timeouts_fired = 0

    # ------------------------------------------------------------------ called from managed threads
    def me(self):
        return getattr(self.tls, "me", None)

    def spawn(self, fn, args=(), name=None, must_finish=False):
        base = name or getattr(fn, "__name__", "t")
        self.names[base] += 1
        if self.names[base] > 1:
            base = f"{base}#{self.names[base]}"
        t = MThread(self, fn, args, base, must_finish)
        self.threads.append(t)
        return t

    def _switch(self, me):
        """`me` is at a scheduling point with its state already set: decide who runs next and hand over
        directly (baton passing: no detour through the controller thread, and no OS context switch at
        all when the decision is to keep running `me`)"""
        nxt = self._pick()
        if nxt is me:
            return
        if nxt is None:
            self.back.release()  # outcome decided (done / deadlock / budget): wake the controller
        else:
            nxt.go.release()
        if me.state != FINISHED:
            me.go.acquire()
            if self.aborting:
                raise Abort()

    def _park(self):
        self._switch(self.me())

    def yield_point(self, op="sync"):
        me = self.me()
        if me is None:
            return
        if self.aborting:
            raise Abort()
        if self.record:
            self._rec(me, op)
        if self.sparse and not self.force_other:
            # fast path of the bounded-preemption mode: keep running until the countdown hits zero
            if self.countdown != 0:
                if self.countdown > 0:
                    self.countdown -= 1
                self.steps += 1
                if self.steps <= self.max_steps:
                    return
        me.state = RUNNABLE
        self._park()

    def wait_until(self, pred, timeout=None, op="wait"):
        """Block until pred() is true -> True; False on (virtual) timeout."""
        me = self.me()
        if me is None:
            if pred():
                return True
            raise RuntimeError("unmanaged thread would block in the deterministic scheduler")
        if self.aborting:
            raise Abort()
        if pred():
            return True
        if timeout is not None and timeout <= 0:
            return False
        me.pred = pred
        me.deadline = None if timeout is None else self.now + timeout
        me.timed_out = False
        me.state = BLOCKED
        me.waiting_on = op
        if self.record:
            self._rec(me, "block:" + op)
        try:
            self._park()
        finally:
            me.pred = None
            me.deadline = None
            me.waiting_on = None
        if me.timed_out:
            me.timed_out = False
            ok = bool(pred())
            if op != "sleep":
                self.expired.append((me.name, op, timeout, ok))
            return ok
        return True

    def _rec(self, me, op):
        f = sys._getframe(2)
        src = tree.SRC
        where = "-"
        while f is not None:
            fn = f.f_code.co_filename
            if fn.startswith(src):
                where = f"{os.path.basename(fn)}:{f.f_lineno}:{f.f_code.co_name}"
                break
            f = f.f_back
        self.trace.append((self.steps, me.name, op, where))
        if len(self.trace) > 4000:
            del self.trace[:2000]

    def mark(self, name):
        self.marks.setdefault(name, self.steps)

    # ------------------------------------------------------------------ line-level preemption
    def enable_line_tracing(self, focus=None):
        """count (and optionally preempt at) executed source lines of the tree under test;
        focus: optional set of function names - only lines inside those functions are counted"""
        src = os.path.join(tree.SRC, "execnet") + os.sep
        sched = self
        known_all = _baseline_names()
        if focus is not None:
            # a function the reference tree does not have is new code: it is always in focus
            focus = _Focus(focus, known_all)

        def local(frame, event, arg):
            if event == "line" and (sched.counting or (sched.count_from is not None and sched.now >= sched.count_from)):
                sched.lines += 1
                if sched.lines in sched.preempt_at and not sched.aborting and sched.me() is not None:
                    sched.preempt_fired += 1
                    sched.force_other = True
                    sched.yield_point("preempt")
            return local

        novel = self.novel_lines = []
        if not self.preempt_at:
            LAST["novel"] = novel  # the unpreempted base run of an enumeration: explore reads which lines were new code

        def local_novel(frame, event, arg):
            if event == "line" and (sched.counting or (sched.count_from is not None and sched.now >= sched.count_from)):
                novel.append(sched.lines + 1)
            local(frame, event, arg)
            return local_novel

        import weakref

        weak_file = weakref.__file__

        def tracer(frame, event, arg):
            code = frame.f_code
            if code.co_filename.startswith(src):
                if code.co_qualname not in known_all:
                    return local_novel
                if focus is None or code in focus:
                    return local
                return None
            # the channel table is a WeakValueDictionary whose iteration is Python code: a thread can be preempted
            # in the middle of list(factory._channels) just as well as in execnet's own lines
            if code.co_filename == weak_file and code.co_name in ("__iter__", "keys", "values", "items", "itervaluerefs"):
                return local
            return None

        self.tracer = tracer

    # ------------------------------------------------------------------ controller
    def choose(self, n):
        if n <= 1:
            self.force_other = False
            return 0
        if self.ci < len(self.choices):
            c = self.choices[self.ci]
        else:
            c = 0
        self.ci += 1
        if self.force_other:
            self.force_other = False
            return 1 + (c % (n - 1))
        return c % n

    def _pick(self):
        """one scheduling decision -> the thread to run next, or None when the outcome is decided"""
        self.steps += 1
        if self.steps > self.max_steps:
            self.outcome = ("budget",)
            return None
        cands = []
        for t in self.threads:
            if t.state == RUNNABLE:
                cands.append(t)
            elif t.state == BLOCKED and (t.timed_out or t.pred()):
                cands.append(t)
        if not cands:
            timed = [t for t in self.threads if t.state == BLOCKED and t.deadline is not None]
            if timed and not any(t.must_finish and t.state != FINISHED for t in self.threads):
                # only background threads are left, all of them asleep: the scenario is over (a body that sleeps in a
                # loop would otherwise keep the virtual clock running forever)
                timed = []
            if timed:
                # virtual time advances to the earliest deadline; every timer that expires at that instant fires
                # (independent timers: all those threads become runnable and the schedule orders them)
                self.now = max(self.now, min(t.deadline for t in timed))
                for t in timed:
                    if t.deadline <= self.now:
                        t.timed_out = True
                        self.timeouts_fired += 1
                        cands.append(t)
            else:
                pending = [t for t in self.threads if t.state == BLOCKED and t.must_finish]
                if pending:
                    blocked = [(t.name, t.waiting_on) for t in self.threads if t.state == BLOCKED]
                    self.outcome = ("deadlock", blocked, self._stacks())
                else:
                    self.outcome = ("done",)
                return None
        # keeping the thread that ran last is choice 0: shrinking choices towards 0 removes switches
        if self.last in cands:
            cands.remove(self.last)
            cands.insert(0, self.last)
        elif self.force_other:
            self.force_other = False  # the preempted thread blocked/finished: nothing to force
        if self.sparse:
            t = self._pick_sparse(cands)
        else:
            t = cands[self.choose(len(cands))]
        if t is not self.last:
            self.switches += 1
        self.last = t
        t.state = RUNNABLE
        return t

    def _pick_sparse(self, cands):
        running = cands[0] is self.last and self.last.state == RUNNABLE
        if running and (self.countdown == 0 or self.force_other):
            # a preemption point: switch to another runnable thread if there is one
            forced_by_line = self.force_other
            self.force_other = False
            pick = 0
            if not forced_by_line:
                pick = self.pre[self.pi][1]
                self.pi += 1
                self.countdown = self.pre[self.pi][0] if self.pi < len(self.pre) else -1
            elif self.line_pick is not None:
                self.preempt_cands = len(cands)
                if self.line_pick >= len(cands) - 1:
                    return cands[0]  # no such alternative here: the enumeration may stop for this line
                pick = self.line_pick
                if self.line_mode == "delay":
                    self.delayed = cands[0]
            else:
                if self.bi < len(self.blk):
                    pick = self.blk[self.bi]
                self.bi += 1
            if len(cands) > 1:
                self.preemptions += 1
                return cands[1 + pick % (len(cands) - 1)]
            return cands[0]
        if running:
            return cands[0]
        # the thread that ran last blocked or ended: free choice among the runnable ones
        self.force_other = False
        if self.delayed is not None:
            others = [t for t in cands if t is not self.delayed]
            if others:
                cands = others
            else:
                self.delayed = None
        if len(cands) == 1:
            return cands[0]
        if self.bi < len(self.blk):
            pick = self.blk[self.bi]
            self.bi += 1
            return cands[pick % len(cands)]
        self.bi += 1
        return cands[-1] if self.order == "new" else cands[0]

    def run(self):
        self.outcome = None
        nxt = self._pick()
        if nxt is not None:
            nxt.go.release()
            self.back.acquire()
        out = self.outcome
        if out[0] == "budget":
            raise StepBudget()
        if out[0] == "deadlock":
            raise Deadlock(out[1], out[2])

    def _stacks(self):
        import traceback

        frames = sys._current_frames()
        out = {}
        for t in self.threads:
            if t.state == BLOCKED:
                f = frames.get(t.os.ident)
                if f is not None:
                    lines = traceback.format_stack(f)
                    keep = [ln for ln in lines if tree.SRC in ln or "/verif/" in ln]
                    out[t.name] = "".join(keep[-8:])
        return out

    def shutdown(self):
        self.aborting = True
        for t in list(self.threads):
            guard = 0
            while t.state != FINISHED:
                t.go.release()
                self.back.acquire()
                guard += 1
                if guard > 10000:
                    break
        # threads spawned during the unwinding
        for t in list(self.threads):
            while t.state != FINISHED:
                t.go.release()
                self.back.acquire()
        for t in self.threads:
            t.os.join(10)

    def unhandled(self):
        return [(t.name, t.exc) for t in self.threads if t.exc is not None]


# ----------------------------------------------------------------------------- primitives


class SLock:
    """re-entrant, like ThreadExecModel.Lock()/RLock() (both return threading.RLock)"""

    def __init__(self, s):
        self.s, self.owner, self.count = s, None, 0

    def acquire(self, blocking=True, timeout=-1):
        s = self.s
        me = s.me() or "unmanaged"
        s.yield_point("lock.acquire")
        if self.owner is me:
            self.count += 1
            return True
        if not blocking:
            if self.owner is None:
                self.owner, self.count = me, 1
                return True
            return False
        ok = s.wait_until(lambda: self.owner is None, None if timeout is None or timeout < 0 else timeout, "lock")
        if not ok:
            return False
        self.owner, self.count = me, 1
        return True

    def release(self):
        me = self.s.me() or "unmanaged"
        if self.owner is not me:
            raise RuntimeError("cannot release un-acquired lock")
        self.count -= 1
        if self.count == 0:
            self.owner = None

    def __enter__(self):
        self.acquire()
        return self

    def __exit__(self, *a):
        self.release()

    def locked(self):
        return self.owner is not None


class SEvent:
    def __init__(self, s):
        self.s, self.flag = s, False

    def is_set(self):
        return self.flag

    isSet = is_set

    def set(self):
        self.s.yield_point("event.set")
        self.flag = True

    def clear(self):
        self.s.yield_point("event.clear")
        self.flag = False

    def wait(self, timeout=None):
        self.s.yield_point("event.wait")
        self.s.wait_until(lambda: self.flag, timeout, "event")
        return self.flag


class Empty(Exception):
    pass


class SQueue:
    def __init__(self, s, maxsize=0):
        self.s, self.items = s, collections.deque()

    def put(self, item, block=True, timeout=None):
        self.s.yield_point("queue.put")
        self.items.append(item)

    def put_nowait(self, item):
        self.put(item)

    def get(self, block=True, timeout=None):
        self.s.yield_point("queue.get")
        if not block:
            if not self.items:
                raise Empty()
            return self.items.popleft()
        if not self.s.wait_until(lambda: len(self.items) > 0, timeout, "queue"):
            raise Empty()
        return self.items.popleft()

    def get_nowait(self):
        return self.get(block=False)

    def qsize(self):
        return len(self.items)

    def empty(self):
        return not self.items


def _gb():
    tree.use()
    from execnet import gateway_base

    return gateway_base


def make_execmodel(sched, backend="thread"):
    gb = _gb()

    class SchedExecModel(gb.ExecModel):
        def __init__(self):
            self.sched = sched
            self._backend = backend
            self._queue = types.SimpleNamespace(Queue=lambda maxsize=0: SQueue(sched), Empty=Empty)
            import socket as _socket

            self._socket = types.SimpleNamespace(
                error=OSError, SOL_IP=_socket.SOL_IP, IP_TOS=_socket.IP_TOS, SOL_TCP=_socket.SOL_TCP,
                TCP_NODELAY=_socket.TCP_NODELAY, gaierror=_socket.gaierror)

        backend = property(lambda self: self._backend)
        queue = property(lambda self: self._queue)
        subprocess = property(lambda self: None)
        socket = property(lambda self: self._socket)

        def start(self, func, args=()):
            self.sched.yield_point("start")
            self.sched.spawn(func, args)

        def get_ident(self):
            return id(self.sched.me())

        def sleep(self, delay):
            self.sched.yield_point("sleep")
            self.sched.wait_until(lambda: False, delay, "sleep")

        def fdopen(self, *a, **k):
            raise NotImplementedError

        def Lock(self):
            return SLock(self.sched)

        def RLock(self):
            return SLock(self.sched)

        def Event(self):
            return SEvent(self.sched)

    return SchedExecModel()


# ----------------------------------------------------------------------------- os proxy


class OsProxy:
    """Stands in for the ``os`` module inside gateway_base while in-process workers run: the worker's
    escalation ladder (SIGINT to itself, os._exit) must be *recorded*, not performed on the harness."""

    def __init__(self, real):
        self._real = real
        self.sched = None

    def __getattr__(self, name):
        return getattr(self._real, name)

    def kill(self, pid, sig):
        if pid == self._real.getpid():
            if self.sched is not None:
                self.sched.escalations.append(("kill", sig))
            return None
        return self._real.kill(pid, sig)

    def _exit(self, code):
        if self.sched is not None:
            self.sched.escalations.append(("_exit", code))
        raise ProcessExit()


_proxy = None


def install_os_proxy(sched):
    global _proxy
    gb = _gb()
    if _proxy is None:
        _proxy = OsProxy(os)
        gb.os = _proxy
    _proxy.sched = sched


def preimport():
    """import every execnet module once, outside managed threads (no import lock under preemption)"""
    tree.use()
    import execnet.gateway  # noqa: F401
    import execnet.gateway_bootstrap  # noqa: F401
    import execnet.gateway_io  # noqa: F401
    import execnet.gateway_socket  # noqa: F401
    import execnet.multi  # noqa: F401
    import execnet.rsync  # noqa: F401
    import execnet.rsync_remote  # noqa: F401
    import execnet.xspec  # noqa: F401
    import ast, builtins, inspect, linecache, textwrap, traceback  # noqa: F401,E401


# ----------------------------------------------------------------------------- fidelity self-test


def selftest(n=300, seed=0):
    """Differential test of SQueue/SEvent/SLock against queue.Queue/threading.Event/threading.RLock on
    single-thread operation sequences, plus scheduling sanity scenarios.  Raises HarnessError."""
    import queue
    import random

    rnd = random.Random(seed)
    for _ in range(n):
        s = Scheduler()
        ops = [rnd.choice(["put", "get_nb", "get_t", "set", "clear", "is_set", "wait0", "acq", "rel", "acq_nb"]) for _ in range(12)]
        out_mine, out_real = [], []

        def play(q, e, l, out, emp):
            depth = 0
            for i, op in enumerate(ops):
                if op == "put":
                    q.put(i)
                elif op == "get_nb":
                    try:
                        out.append(q.get(block=False))
                    except emp:
                        out.append("empty")
                elif op == "get_t":
                    try:
                        out.append(q.get(timeout=0.001))
                    except emp:
                        out.append("empty")
                elif op == "set":
                    e.set()
                elif op == "clear":
                    e.clear()
                elif op == "is_set":
                    out.append(e.is_set())
                elif op == "wait0":
                    out.append(e.wait(0.001))
                elif op == "acq":
                    out.append(l.acquire())
                    depth += 1
                elif op == "acq_nb":
                    r = l.acquire(False)
                    out.append(r)
                    depth += 1 if r else 0
                elif op == "rel":
                    if depth:
                        l.release()
                        depth -= 1
                    else:
                        try:
                            l.release()
                            out.append("released-unowned")
                        except RuntimeError:
                            out.append("RuntimeError")

        s.spawn(play, (SQueue(s), SEvent(s), SLock(s), out_mine, Empty), must_finish=True)
        try:
            s.run()
        finally:
            s.shutdown()
        bad = s.unhandled()
        if bad:
            raise tree.HarnessError(f"scheduler selftest: {bad}")
        play(queue.Queue(), threading.Event(), threading.RLock(), out_real, queue.Empty)
        if out_mine != out_real:
            raise tree.HarnessError(f"scheduler primitives disagree with threading/queue on {ops}: {out_mine} vs {out_real}")
    # two-thread scenarios with known legal outcomes
    for choices in ([], [1, 1, 1, 1], [1, 0, 1, 0, 1], [0, 1, 1, 0, 0, 1, 1]):
        s = Scheduler(choices)
        q, lock, log = SQueue(s), SLock(s), []

        def prod():
            for i in range(3):
                with lock:
                    q.put(i)

        def cons():
            for _ in range(3):
                log.append(q.get(timeout=5))

        s.spawn(prod, must_finish=True)
        s.spawn(cons, must_finish=True)
        try:
            s.run()
        finally:
            s.shutdown()
        if log != [0, 1, 2] or s.unhandled():
            raise tree.HarnessError(f"scheduler selftest producer/consumer: {log} {s.unhandled()}")
    # a genuine deadlock must be reported as such, a timed wait must expire in virtual time
    s = Scheduler()
    ev = SEvent(s)
    s.spawn(lambda: ev.wait(), must_finish=True)
    try:
        s.run()
        raise tree.HarnessError("scheduler selftest: deadlock not detected")
    except Deadlock:
        pass
    finally:
        s.shutdown()
    s = Scheduler()
    ev = SEvent(s)
    res = []
    s.spawn(lambda: res.append(ev.wait(100.0)), must_finish=True)
    try:
        s.run()
    finally:
        s.shutdown()
    if res != [False] or s.now != 100.0:
        raise tree.HarnessError("scheduler selftest: virtual timeout")
    return True
