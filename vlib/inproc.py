"""Run a conversation program (vlib/convo.py) on an in-process gateway pair under the deterministic
scheduler.  A run is a pure function of (program, choices, preempt_at, transport, backends, chunkings)."""
from __future__ import annotations

import gc
import inspect
import itertools

from . import convo, tree, wires
from . import detsched as D

CONVO_SRC = inspect.getsource(convo)
# both ends share this process, so the B side can import the interpreter instead of receiving ~14 KB of source
# with every remote_exec (which would only add thousands of chunked transport reads per conversation)
INPROC_SRC = "from vlib.convo import run_b, report_b"
_runs = itertools.count(1)
_pid = itertools.count(1)


class Outcome:
    def __init__(self):
        self.result = None  # dict from convo.run_a
        self.sched = None
        self.deadlock = None
        self.budget = False
        self.unhandled = []
        self.pair = None
        self.lines = 0


def run_program(program, choices=(), preempt_at=(), transport="pipe", backend_b="thread", chunks_ab=None,
                chunks_ba=None, send_chunks=None, count_lines=False, record=False, exit_gateway=True, keep_wire=False,
                before_exit=None, sparse=None, focus=None):
    tree.use()
    out = Outcome()
    s = D.Scheduler(choices, preempt_at=preempt_at, record=record, sparse=sparse)
    out.sched = s
    if preempt_at or count_lines:
        s.enable_line_tracing(focus)
    D.install_os_proxy(s)
    pair = wires.InprocPair(s, backend_b=backend_b, transport=transport, chunks_ab=chunks_ab, chunks_ba=chunks_ba,
                            send_chunks=send_chunks)
    out.pair = pair
    if keep_wire:
        pair.ab.keep_log = pair.ba.keep_log = True
    pid = "p%d" % next(_pid)
    holder = {}

    def user():
        group = wires.FakeGroup()
        gw = pair.make_gateway(group)
        holder["gw"] = gw
        out.result = convo.run_a(gw, pid, program, INPROC_SRC)
        if before_exit is not None:
            before_exit(gw, out)
        if exit_gateway:
            gw.exit()
            gw.join(120)
            out.joined = not gw.hasreceiver()

    gc_was = gc.isenabled()
    gc.disable()
    try:
        pair.start_worker()
        s.spawn(user, name="user", must_finish=True)
        try:
            s.run()
        except D.Deadlock as e:
            out.deadlock = e
        except D.StepBudget:
            out.budget = True
        finally:
            s.shutdown()
    finally:
        convo.registry().runs.pop(pid, None)
        holder.clear()
        if gc_was:
            gc.enable()
        if next(_runs) % 25 == 0:
            gc.collect()
    out.unhandled = s.unhandled()
    out.lines = s.lines
    return out


def late_wakeups(sched):
    """timed waits with one of the harness's long safety timeouts (>= 30 virtual seconds) that ended BY that timeout:
    virtual time only advances when every thread is blocked, so such a wait was never woken - a lost wake-up that in
    real time is a 60 s stall (and a hang forever for an untimed wait)"""
    return [e for e in sched.expired if e[2] is not None and e[2] >= 30]
