"""Initiator process for C11: creates workers as told, reports their pids, then ends in the requested way.
argv[1] = JSON scenario.  Runs with the tree under test first on sys.path (PYTHONPATH set by the harness)."""
import json
import os
import sys
import time

ACT = {
    "idle": None,
    "receive": "channel.receive()",
    "busy": "while True: pass",
    "sleep": "import time\ntime.sleep(1000)",
    "swallow": "import time\nwhile True:\n    try:\n        time.sleep(1000)\n    except KeyboardInterrupt:\n        pass",
    "sigint_ignored": "import signal, time\nsignal.signal(signal.SIGINT, signal.SIG_IGN)\nwhile True:\n    time.sleep(1000)",
    "daemon_threads": "import threading, time\nfor i in range(3):\n    t = threading.Thread(target=time.sleep, args=(1000,)); t.daemon = True; t.start()\nchannel.receive()",
    "bulk_to_worker": "while True:\n    channel.receive()",
    "bulk_from_worker": "while True:\n    channel.send('x' * 100000)",
    "gsleep": "import gevent\ngevent.sleep(1000)",
}


def main():
    sc = json.loads(sys.argv[1])
    import execnet

    assert os.path.realpath(execnet.__file__).startswith(os.path.realpath(sc["src"])), execnet.__file__
    group = execnet.Group()
    pids = []
    chans = []
    base = None
    for w in sc["workers"]:
        if w["topology"] == "via" and base is None:
            base = group.makegateway("popen//id=base")
            pids.append(base.remote_exec("import os; channel.send(os.getpid())").receive(30))
        if w["topology"] == "popen":
            spec = "popen//execmodel=%s" % w["model"]
        elif w["topology"] == "python":
            spec = "popen//python=%s//execmodel=%s" % (sys.executable, w["model"])
        else:
            spec = "popen//via=base//execmodel=%s" % w["model"]
        gw = group.makegateway(spec)
        pc = gw.remote_exec("import os; channel.send(os.getpid())")
        pids.append(pc.receive(30))
        pc.waitclose(30)
        src = ACT[w["activity"]]
        if src:
            ch = gw.remote_exec(src)
            chans.append((w["activity"], ch))
    sys.stdout.write(json.dumps({"pids": pids}) + "\n")
    sys.stdout.flush()
    if sc["end"] == "bulk-then-wait":
        pass
    # keep bulk transfers going while we wait for our fate
    t_end = time.time() + sc.get("linger", 0.3)
    while time.time() < t_end:
        for act, ch in chans:
            if act == "bulk_to_worker":
                ch.send("y" * 100000)
            elif act == "bulk_from_worker":
                try:
                    ch.receive(0.01)
                except Exception:
                    pass
        time.sleep(0.005)
    if sc["end"] == "return":
        import atexit

        atexit.unregister(group._cleanup_atexit)  # a plain exit without the polite shutdown
        return
    if sc["end"] == "return_atexit":
        return
    if sc["end"] == "_exit":
        os._exit(3)
    if sc["end"] == "exit_gateways":
        for gw in list(group):
            gw.exit()
        time.sleep(60)
        os._exit(0)
    # "killed": wait for SIGKILL from the harness, still feeding the bulk transfers
    while True:
        for act, ch in chans:
            if act == "bulk_to_worker":
                ch.send("y" * 100000)
            elif act == "bulk_from_worker":
                try:
                    ch.receive(0.01)
                except Exception:
                    pass
        time.sleep(0.005)


if __name__ == "__main__":
    main()
