"""Import the tree under test (/repo/src by default) and assert its provenance.

Every check calls ``tree.use()`` before touching execnet.  The default ``import execnet`` of
/venv resolves to a *released* copy in site-packages; a check that silently tested that copy
would be worthless, so a wrong provenance is a harness error (exit 2), never a verdict.
"""
from __future__ import annotations

import os
import sys

REPO = os.environ.get("VERIF_REPO", "/repo")
SRC = os.path.join(REPO, "src")
VERIF = os.path.dirname(os.path.dirname(os.path.abspath(__file__)))


class HarnessError(Exception):
    pass


_used = False


def use():
    global _used
    if _used:
        return sys.modules["execnet"]
    if SRC in sys.path:
        sys.path.remove(SRC)
    sys.path.insert(0, SRC)
    for name in list(sys.modules):
        if name == "execnet" or name.startswith("execnet."):
            del sys.modules[name]
    import execnet

    where = os.path.realpath(execnet.__file__)
    if not where.startswith(os.path.realpath(SRC) + os.sep):
        raise HarnessError(f"execnet imported from {where}, expected below {SRC}")
    _used = True
    return execnet


def child_env(extra=None):
    """Environment for helper processes: tree first on the path, stable hashing."""
    env = dict(os.environ)
    pp = [SRC, VERIF]
    env["PYTHONPATH"] = os.pathsep.join(pp)
    env["PYTHONHASHSEED"] = "0"
    env["PYTHONDONTWRITEBYTECODE"] = "1"
    env.pop("EXECNET_DEBUG", None)
    if extra:
        env.update(extra)
    return env


PYENV = "/root/.pyenv/versions"


def interpreters(minor_versions=("3.10", "3.11", "3.12", "3.13")):
    """{'3.12': '/path/python', ...} for the interpreters present on this image."""
    out = {}
    if os.path.isdir(PYENV):
        for d in sorted(os.listdir(PYENV)):
            for mv in minor_versions:
                if d.startswith(mv + "."):
                    p = os.path.join(PYENV, d, "bin", "python")
                    if os.path.exists(p):
                        out[mv] = p
    mv = "%d.%d" % sys.version_info[:2]
    if mv in minor_versions:
        out.setdefault(mv, sys.executable)
    return out
