"""E4 (real-thread flavour) - hand-driven transports for the real Gateway / IO classes.

PipeGateway: a real ``execnet.gateway.Gateway`` over two OS pipes whose peer is the harness itself:
frames are injected by hand (``inject``) and everything the gateway writes can be read back and
parsed with the reference frame codec (``sent_frames``)."""
from __future__ import annotations

import atexit
import os
import select

from . import refcodec as R
from . import tree


class PipeGateway:
    def __init__(self, gid="pipegw"):
        execnet = tree.use()
        from execnet import gateway_base as gb
        from execnet.gateway import Gateway
        from execnet.xspec import XSpec

        r1, w1 = os.pipe()
        r2, w2 = os.pipe()
        self.to_gw = os.fdopen(w1, "wb", 0)
        self.from_gw_fd = r2
        self._rx = b""
        io_ = gb.Popen2IO(os.fdopen(w2, "wb"), os.fdopen(r1, "rb"), gb.get_execmodel("thread"))
        self.group = execnet.Group()
        self.gw = Gateway(io_, XSpec("popen//id=" + gid))
        self.group._register(self.gw)
        self.closed = False

    def inject(self, code, cid, payload=b""):
        self.to_gw.write(R.ref_frame(code, cid, payload))

    def inject_raw(self, data):
        self.to_gw.write(data)

    def eof(self):
        self.to_gw.close()

    def sent_frames(self, wait=0.0, until=None):
        """frames written by the gateway so far (drains the pipe; waits up to `wait` seconds for
        `until(frames)` to become true)"""
        import time

        t_end = time.time() + wait
        while True:
            while True:
                r, _, _ = select.select([self.from_gw_fd], [], [], 0)
                if not r:
                    break
                chunk = os.read(self.from_gw_fd, 1 << 16)
                if not chunk:
                    break
                self._rx += chunk
            frames, used = R.parse_frames(self._rx)
            if until is None or until(frames) or time.time() >= t_end:
                return frames, len(self._rx) - used
            select.select([self.from_gw_fd], [], [], 0.01)

    def close(self):
        if self.closed:
            return
        self.closed = True
        try:
            if not self.to_gw.closed:
                self.to_gw.close()
            self.gw.join(10)
            os.close(self.from_gw_fd)
        finally:
            if self.gw in self.group:
                self.group._unregister(self.gw)
            self.group._gateways_to_join[:] = []
            atexit.unregister(self.group._cleanup_atexit)
