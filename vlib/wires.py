"""E4 (real-thread flavour) - hand-driven transports for the real Gateway / IO classes.

PipeGateway: a real ``execnet.gateway.Gateway`` over two OS pipes whose peer is the harness itself:
frames are injected by hand (``inject``) and everything the gateway writes can be read back and
parsed with the reference frame codec (``sent_frames``)."""
from __future__ import annotations

import atexit
import os
import select

from . import refcodec as R
from . import tree


class PipeGateway:
    def __init__(self, gid="pipegw"):
        execnet = tree.use()
        from execnet import gateway_base as gb
        from execnet.gateway import Gateway
        from execnet.xspec import XSpec

        r1, w1 = os.pipe()
        r2, w2 = os.pipe()
        self.to_gw = os.fdopen(w1, "wb", 0)
        self.from_gw_fd = r2
        self._rx = b""
        io_ = gb.Popen2IO(os.fdopen(w2, "wb"), os.fdopen(r1, "rb"), gb.get_execmodel("thread"))
        self.group = execnet.Group()
        self.gw = Gateway(io_, XSpec("popen//id=" + gid))
        self.group._register(self.gw)
        self.closed = False

    def inject(self, code, cid, payload=b""):
        self.to_gw.write(R.ref_frame(code, cid, payload))

    def inject_raw(self, data):
        self.to_gw.write(data)

    def eof(self):
        self.to_gw.close()

    def sent_frames(self, wait=0.0, until=None):
        """frames written by the gateway so far (drains the pipe; waits up to `wait` seconds for
        `until(frames)` to become true)"""
        import time

        t_end = time.time() + wait
        while True:
            while True:
                r, _, _ = select.select([self.from_gw_fd], [], [], 0)
                if not r:
                    break
                chunk = os.read(self.from_gw_fd, 1 << 16)
                if not chunk:
                    break
                self._rx += chunk
            frames, used = R.parse_frames(self._rx)
            if until is None or until(frames) or time.time() >= t_end:
                return frames, len(self._rx) - used
            select.select([self.from_gw_fd], [], [], 0.01)

    def close(self):
        if self.closed:
            return
        self.closed = True
        try:
            if not self.to_gw.closed:
                self.to_gw.close()
            self.gw.join(10)
            os.close(self.from_gw_fd)
        finally:
            if self.gw in self.group:
                self.group._unregister(self.gw)
            self.group._gateways_to_join[:] = []
            atexit.unregister(self.group._cleanup_atexit)


# =============================================================================================
# Scheduler flavour: scripted pipe / socket objects for the real Popen2IO / SocketIO classes
# =============================================================================================


class Chunker:
    """max number of bytes the next low-level read may return: cycles through a generated list"""

    def __init__(self, sizes=None):
        self.sizes = list(sizes or [])
        self.i = 0

    def __call__(self):
        if not self.sizes:
            return 1 << 30
        v = self.sizes[self.i % len(self.sizes)]
        self.i += 1
        return max(1, v)


class SPipe:
    """one-directional byte pipe; every read/write is a scheduling point"""

    def __init__(self, sched, chunker=None, name="pipe"):
        self.s, self.buf, self.wclosed, self.rclosed = sched, bytearray(), False, False
        self.chunk = chunker or Chunker()
        self.name = name
        self.written = 0  # total bytes ever written (wire log for oracles)
        self.log = bytearray()
        self.keep_log = False
        self.cut_after = None  # deliver at most this many bytes in total, then EOF
        self.delivered = 0
        self.epipe_pending = False

    def read(self, n=-1):
        self.s.yield_point("pipe.read")
        self.s.wait_until(lambda: len(self.buf) > 0 or self.wclosed or self.rclosed, None, "pipe.read")
        if self.rclosed:
            raise ValueError("read of closed file")
        k = len(self.buf) if n is None or n < 0 else min(n, len(self.buf))
        if k:
            k = max(1, min(k, self.chunk()))
        data = bytes(self.buf[:k])
        del self.buf[:k]
        self.delivered += len(data)
        return data

    def write(self, data):
        self.s.yield_point("pipe.write")
        if self.wclosed:
            raise ValueError("write to closed file")
        if self.rclosed:
            # a real BufferedWriter keeps the unflushed bytes: every later flush() - including the one implied
            # by close() - fails with EPIPE again
            self.epipe_pending = True
            raise BrokenPipeError(32, "Broken pipe")
        data = bytes(data)
        self.written += len(data)
        if self.keep_log:
            self.log += data
        if self.cut_after is not None:
            room = max(0, self.cut_after - (self.written - len(data)))
            data = data[:room]
        self.buf += data
        return len(data)

    def flush(self):
        if self.wclosed:
            raise ValueError("flush of closed file")
        if self.rclosed and self.epipe_pending:
            raise BrokenPipeError(32, "Broken pipe")


class _REnd:
    def __init__(self, p):
        self.p, self.read = p, p.read
        self.closed = False

    def close(self):
        self.closed = True
        self.p.rclosed = True


class _WEnd:
    def __init__(self, p):
        self.p, self.write, self.flush = p, p.write, p.flush
        self.closed = False

    def close(self):
        first = not self.closed
        self.closed = True
        self.p.wclosed = True
        if first and self.p.epipe_pending:
            raise BrokenPipeError(32, "Broken pipe")  # close() flushes; the file is closed nevertheless


class SSocket:
    """one end of a scripted stream socket pair for the real SocketIO: recv is partial, sendall is a
    loop of partial sends with a scheduling point in between (what CPython does with the GIL released)"""

    def __init__(self, sched, rx, tx, send_chunker=None):
        self.s, self.rx, self.tx = sched, rx, tx
        self.send_chunk = send_chunker or Chunker()

    def setsockopt(self, *a):
        pass

    def recv(self, n):
        p = self.rx
        self.s.yield_point("sock.recv")
        self.s.wait_until(lambda: len(p.buf) > 0 or p.wclosed or p.rclosed, None, "sock.recv")
        if p.rclosed:
            return b""
        k = min(n, len(p.buf))
        if k:
            k = max(1, min(k, p.chunk()))
        data = bytes(p.buf[:k])
        del p.buf[:k]
        p.delivered += len(data)
        return data

    def send(self, data):
        p = self.tx
        self.s.yield_point("sock.send")
        if p.wclosed or p.rclosed:
            raise BrokenPipeError(32, "Broken pipe")
        k = max(1, min(len(data), self.send_chunk())) if data else 0
        chunk = bytes(data[:k])
        p.written += len(chunk)
        if p.keep_log:
            p.log += chunk
        if p.cut_after is not None:
            room = max(0, p.cut_after - (p.written - len(chunk)))
            chunk = chunk[:room]
        p.buf += chunk
        return k

    def sendall(self, data):
        data = memoryview(bytes(data))
        while len(data):
            k = self.send(data)
            data = data[k:]

    def shutdown(self, how):
        if how in (0, 2):
            self.rx.rclosed = True
        if how in (1, 2):
            self.tx.wclosed = True

    def close(self):
        self.shutdown(2)


def io_pair(sched, em_a, em_b, transport="pipe", chunks_ab=None, chunks_ba=None, send_chunks=None):
    """-> (io_a, io_b, pipe_ab, pipe_ba): real Popen2IO / SocketIO objects over scripted transports"""
    tree.use()
    from execnet import gateway_base as gb

    ab = SPipe(sched, Chunker(chunks_ab), "a->b")
    ba = SPipe(sched, Chunker(chunks_ba), "b->a")
    if transport == "pipe":
        io_a = gb.Popen2IO(_WEnd(ab), _REnd(ba), em_a)
        io_b = gb.Popen2IO(_WEnd(ba), _REnd(ab), em_b)
        io_a.wait = io_b.wait = lambda: 0
        io_a.kill = io_b.kill = lambda: None
    elif transport == "socket":
        from execnet.gateway_socket import SocketIO

        io_a = SocketIO(SSocket(sched, ba, ab, Chunker(send_chunks)), em_a)
        io_b = SocketIO(SSocket(sched, ab, ba, Chunker(send_chunks)), em_b)
    else:
        raise ValueError(transport)
    return io_a, io_b, ab, ba


class InprocPair:
    """Both ends of a gateway inside this process on the deterministic scheduler:
    ``Gateway(io_a, spec)`` for the initiator and a managed thread running
    ``WorkerGateway(io_b, id, _startcount=2).serve()`` - the calls makegateway()/serve() make."""

    def __init__(self, sched, backend_a="thread", backend_b="thread", transport="pipe", chunks_ab=None,
                 chunks_ba=None, send_chunks=None, gid="gwx"):
        from . import detsched

        tree.use()
        from execnet import gateway_base as gb

        self.sched = sched
        self.em_a = detsched.make_execmodel(sched, backend_a)
        self.em_b = detsched.make_execmodel(sched, backend_b)
        self.io_a, self.io_b, self.ab, self.ba = io_pair(sched, self.em_a, self.em_b, transport, chunks_ab, chunks_ba,
                                                         send_chunks)
        self.gid = gid
        self.gw = None
        self.worker = gb.WorkerGateway(io=self.io_b, id=gid + "-worker", _startcount=2)
        self.worker_thread = None

    def start_worker(self):
        self.worker_thread = self.sched.spawn(self.worker.serve, name="worker-main")

    def make_gateway(self, group=None):
        """must be called from a managed thread (Gateway.__init__ spawns the receiver thread)"""
        from execnet.gateway import Gateway
        from execnet.xspec import XSpec

        self.gw = Gateway(self.io_a, XSpec("popen//id=" + self.gid))
        if group is not None:
            group._register(self.gw)
        return self.gw


class FakeGroup:
    """minimal stand-in for multi.Group for in-process gateways (Gateway.exit() needs _group)"""

    def __init__(self):
        self._gateways = []
        self._gateways_to_join = []

    def __contains__(self, gw):
        return gw in self._gateways

    def _register(self, gw):
        self._gateways.append(gw)
        gw._group = self

    def _unregister(self, gw):
        self._gateways.remove(gw)
        self._gateways_to_join.append(gw)
