"""E7 - file-tree lab for the rsync check: tree specs (pure data), building them on disk, mutating, snapshotting."""
from __future__ import annotations

import hashlib
import os
import shutil
import stat

from hypothesis import strategies as st

NAMES = ["a", "b", "f.txt", "with space", "ünï-é", ".hidden", "-dash", "nl\nx", "UPPER", "x.tar.gz", "d", "sub", "e"]


def content(seed, size):
    if size == 0:
        return b""
    block = bytes((seed * 31 + i * 7 + (i >> 8)) & 0xFF for i in range(min(size, 4096)))
    return (block * (size // len(block) + 1))[:size]


def entries(max_entries=8, max_size=300000):
    """flat list of entry specs; parent directories are created implicitly; later entries with the same path win"""
    comp = st.sampled_from(NAMES)
    path = st.lists(comp, min_size=1, max_size=3).map(lambda cs: "/".join(cs))
    size = st.one_of(st.integers(0, 50), st.integers(0, 5000), st.integers(0, max_size))
    mode = st.sampled_from([0o644, 0o600, 0o444, 0o755, 0o700, 0o640, 0o666, 0o400])
    mtime = st.one_of(st.integers(1_000_000_000, 1_700_000_000).map(float),
                      st.integers(4_000_000_000, 6_800_000_000).map(lambda n: n / 4.0),
                      st.floats(1e9, 1.7e9, allow_nan=False))
    f = st.fixed_dictionaries(dict(kind=st.just("file"), path=path, seed=st.integers(0, 255), size=size, mode=mode, mtime=mtime))
    d = st.fixed_dictionaries(dict(kind=st.just("dir"), path=path, mode=st.sampled_from([0o755, 0o700, 0o555, 0o750, 0o500])))
    link = st.fixed_dictionaries(dict(kind=st.just("link"), path=path,
                                      target=st.sampled_from(["rel-sibling", "rel-up", "abs-inside", "abs-outside", "dangling",
                                                              "abs-root", "rel-dir"])))
    return st.lists(st.one_of(f, f, f, d, link), min_size=1, max_size=max_entries)


def normalise(specs):
    """drop entries whose path runs through a file/link of an earlier spec; last spec for a path wins"""
    by = {}
    for s in specs:
        by[s["path"]] = s
    out = []
    for p in sorted(by, key=lambda p: (p.count("/"), p)):
        parts = p.split("/")
        ok = True
        for i in range(1, len(parts)):
            par = "/".join(parts[:i])
            if par in by and by[par]["kind"] != "dir":
                ok = False
        if ok:
            out.append(by[p])
    return out


def link_target(spec, root, all_paths):
    """concrete readlink value for a symlink spec"""
    p = spec["path"]
    d = os.path.dirname(p)
    others = [q for q in all_paths if q != p]
    t = spec["target"]
    if t == "rel-sibling":
        sib = [q for q in others if os.path.dirname(q) == d]
        return os.path.basename(sib[0]) if sib else "nosuch-sibling"
    if t == "rel-up":
        return "../" + (others[0].split("/")[0] if others else "nothing")
    if t == "rel-dir":
        dirs = [q for q in others if "/" in q]
        return os.path.relpath(os.path.dirname(dirs[0]), d or ".") if dirs else "."
    if t == "abs-inside":
        return os.path.join(root, others[0]) if others else os.path.join(root, "nosuch")
    if t == "abs-root":
        return root
    if t == "abs-outside":
        return "/etc/hostname"
    return "dangling-target-does-not-exist"


def build(root, specs):
    """create the tree described by specs below root (root itself is created)"""
    specs = normalise(specs)
    os.makedirs(root, exist_ok=True)
    paths = [s["path"] for s in specs]
    dirs_modes = []
    for s in specs:
        full = os.path.join(root, s["path"])
        os.makedirs(os.path.dirname(full), exist_ok=True)
        if s["kind"] == "dir":
            os.makedirs(full, exist_ok=True)
            dirs_modes.append((full, s["mode"]))
        elif s["kind"] == "file":
            with open(full, "wb") as f:
                f.write(content(s["seed"], s["size"]))
            os.chmod(full, s["mode"])
            os.utime(full, (s["mtime"], s["mtime"]))
        else:
            os.symlink(link_target(s, root, paths), full)
    for full, mode in sorted(dirs_modes, reverse=True):
        os.chmod(full, mode)
    return specs


def snapshot(root):
    """{relpath: (kind, mode&0o777, mtime, sha1 | readlink)} ; directories have mtime None"""
    out = {}
    for dirpath, dirnames, filenames in os.walk(root):
        for name in list(dirnames) + filenames:
            full = os.path.join(dirpath, name)
            rel = os.path.relpath(full, root)
            st_ = os.lstat(full)
            if stat.S_ISLNK(st_.st_mode):
                out[rel] = ("link", None, None, os.readlink(full))
                if name in dirnames:
                    dirnames.remove(name)
            elif stat.S_ISDIR(st_.st_mode):
                out[rel] = ("dir", st_.st_mode & 0o777, None, None)
            else:
                with open(full, "rb") as f:
                    h = hashlib.sha1(f.read()).hexdigest()
                out[rel] = ("file", st_.st_mode & 0o777, st_.st_mtime, h)
    return out


def force_remove(path):
    if not os.path.lexists(path):
        return
    for dirpath, dirnames, filenames in os.walk(path):
        try:
            os.chmod(dirpath, 0o700)
        except OSError:
            pass
    if os.path.isdir(path) and not os.path.islink(path):
        shutil.rmtree(path, ignore_errors=True)
    else:
        os.unlink(path)
