"""Core types shared by the runner and the check modules (kept out of runner.py so that
``python -m vlib.runner`` does not create a second copy of these classes under __main__)."""
from __future__ import annotations

import os
import traceback

from . import tree

class Violation(Exception):
    def __init__(self, clause, detail="", exc=None, site=None):
        super().__init__(clause, detail)
        self.clause = clause
        self.detail = str(detail)[:4000]
        self.exc_type = type(exc).__name__ if exc is not None else "-"
        self.site = site if site is not None else (innermost_repo_frame(exc) if exc is not None else "-")
        if exc is not None and not detail:
            self.detail = "".join(traceback.format_exception_only(type(exc), exc)).strip()[:2000]

    @property
    def bucket(self):
        return f"{self.clause}/{self.exc_type}/{self.site}"


class Inconclusive(Exception):
    pass


HarnessError = tree.HarnessError


def innermost_repo_frame(exc):
    """'file.py:function' of the innermost traceback frame that lies in the tree under test."""
    tb = exc.__traceback__
    best = "-"
    src = os.path.realpath(tree.SRC)
    while tb is not None:
        fn = os.path.realpath(tb.tb_frame.f_code.co_filename)
        if fn.startswith(src):
            best = f"{os.path.basename(fn)}:{tb.tb_frame.f_code.co_name}"
        tb = tb.tb_next
    return best


class Part:
    name = "part"
    budget = {"quick": 100, "thorough": 1000}
    max_shards = 16
    shrink_seconds = {"quick": 20, "thorough": 180}

    def strategy(self, ctx):
        return None

    def cases(self, ctx):
        raise NotImplementedError

    def encode(self, case):
        return case

    def decode(self, j):
        return j

    def setup(self, ctx):
        pass

    def teardown(self, ctx):
        pass

    def run(self, case, ctx):
        raise NotImplementedError


class Ctx:
    def __init__(self, prop, tier, seed, shard=0, nshards=1, budget=0):
        self.prop, self.tier, self.seed = prop, tier, seed
        self.shard, self.nshards, self.budget = shard, nshards, budget
        self.scratch = None
        self.extra = {}  # free-form counters a part wants in the evidence ("excluded", ...)

    def count(self, key, n=1):
        self.extra[key] = self.extra.get(key, 0) + n




# ----------------------------------------------------------------------------- real-process helpers


def descendants(root=None):
    """pids of all live descendants of `root` (default: this process), by scanning /proc"""
    root = root or os.getpid()
    parent = {}
    for d in os.listdir("/proc"):
        if not d.isdigit():
            continue
        try:
            with open(f"/proc/{d}/stat") as f:
                rest = f.read().rsplit(")", 1)[1].split()
            parent[int(d)] = int(rest[1])
        except (OSError, IndexError, ValueError):
            continue
    out, frontier = [], [root]
    while frontier:
        p = frontier.pop()
        for c, pp in parent.items():
            if pp == p and c not in out:
                out.append(c)
                frontier.append(c)
    return out


def group_members(pgid=None):
    """pids (other than this process) whose process group is `pgid` (default: ours) - finds orphans that were
    re-parented to init after their parent was killed, which `descendants()` cannot see any more"""
    pgid = pgid or os.getpgrp()
    me = os.getpid()
    out = []
    for d in os.listdir("/proc"):
        if not d.isdigit() or int(d) == me:
            continue
        try:
            with open(f"/proc/{d}/stat") as f:
                rest = f.read().rsplit(")", 1)[1].split()
            if int(rest[2]) == pgid:
                out.append(int(d))
        except (OSError, IndexError, ValueError):
            continue
    return out


OWN_GROUP = False  # set by the runner once this process leads a process group of its own


def own_group():
    """make this process the leader of a fresh process group, so that everything it starts can be found later"""
    global OWN_GROUP
    if os.getpgrp() == os.getpid():
        # already a group leader - e.g. the first process of a shell pipeline, whose group contains the other
        # pipeline members: that group is not ours to clean up
        OWN_GROUP = False
        return
    try:
        os.setpgid(0, 0)
    except OSError:
        pass
    OWN_GROUP = os.getpgrp() == os.getpid()


def leftovers():
    pids = set(descendants())
    if OWN_GROUP:  # never touch a process group we merely belong to (that would be the invoking shell's pipeline)
        pids |= set(group_members())
    return pids


def kill_leftovers():
    """SIGKILL every descendant and (if we lead our own process group) every other member of it;
    -> number of processes killed"""
    import signal

    n = 0
    for pid in leftovers():
        try:
            os.kill(pid, signal.SIGKILL)
            n += 1
        except OSError:
            pass
    return n


def proc_state(pid):
    """'R','S','D','Z','T',... or None when the process does not exist"""
    try:
        with open(f"/proc/{pid}/stat") as f:
            return f.read().rsplit(")", 1)[1].split()[0]
    except (OSError, IndexError):
        return None


def alive(pid):
    st = proc_state(pid)
    return st is not None and st != "Z"


class Watchdog:
    """Wall-clock guard for cases that involve real processes: after `seconds` every descendant process
    is SIGKILLed, which turns a hang into EOF/EPIPE in this process; `fired` tells the caller.
    Used with bounds two orders of magnitude above the normal duration of a case."""

    def __init__(self, seconds, extra_pids=()):
        self.seconds, self.fired, self.extra = seconds, False, list(extra_pids)

    def _fire(self):
        import signal

        self.fired = True
        for pid in list(leftovers()) + self.extra:
            try:
                os.kill(pid, signal.SIGKILL)
            except OSError:
                pass

    def __enter__(self):
        import threading

        self.t = threading.Timer(self.seconds, self._fire)
        self.t.daemon = True
        self.t.start()
        return self

    def __exit__(self, *a):
        self.t.cancel()
        return False
