"""Runs under another interpreter (3.10 .. 3.13) with PYTHONPATH=<tree>/src:/verif.
Line protocol on stdin/stdout: request  {"v": <tagged json value>, "b": <hex of dump made elsewhere>}
                               response {"dump": hex(dumps(v)), "load": tagged json of loads(b), "err": null|text}
Imports only the stdlib, execnet.gateway_base from the tree under test and vlib.values."""
import json
import os
import sys


def main():
    from execnet import gateway_base as gb

    from vlib import values as V

    src = os.path.realpath(sys.argv[1])
    assert os.path.realpath(gb.__file__).startswith(src), gb.__file__
    sys.stdout.write(json.dumps({"hello": list(sys.version_info[:3]), "file": gb.__file__}) + "\n")
    sys.stdout.flush()
    for line in sys.stdin:
        req = json.loads(line)
        out = {"err": None}
        try:
            v = V.from_json(req["v"])
            out["dump"] = gb.dumps(v).hex()
            out["load"] = V.to_json(gb.loads(bytes.fromhex(req["b"])))
        except BaseException as e:  # noqa: BLE001
            out["err"] = "%s: %s" % (type(e).__name__, e)
        sys.stdout.write(json.dumps(out) + "\n")
        sys.stdout.flush()


if __name__ == "__main__":
    main()
