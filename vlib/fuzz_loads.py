"""atheris target for C13: loads(data) with the semantic oracle inside the target.

Runs under python3-vt (atheris lives there); PYTHONPATH puts the tree under test and /verif
first.  Violations never crash the fuzzer: the first input of every new bucket is written to
$VERIF_FUZZ_OUT/viol-<n> and the campaign continues (collect mode); stats.json is rewritten
periodically and at the end (atexit does not run under libFuzzer, so it is written from the
target every 4096 executions and whenever something new happens).
"""
import hashlib
import json
import os
import sys

import atheris

OUT = os.environ["VERIF_FUZZ_OUT"]
CAP = int(os.environ.get("VERIF_NEWLIST_CAP", "65536"))

with atheris.instrument_imports(include=["execnet"]):
    from execnet import gateway_base as gb

from vlib import refcodec as R  # noqa: E402
from vlib import tree  # noqa: E402
from vlib import values as V  # noqa: E402

src = os.path.realpath(tree.SRC)
assert os.path.realpath(gb.__file__).startswith(src), gb.__file__

_armed = False
_events = []
_BAD = ("os.system", "os.exec", "os.fork", "os.posix_spawn", "os.spawn", "subprocess.", "socket.", "ctypes.",
        "marshal.loads", "pickle.find_class", "open", "exec", "compile", "os.remove", "os.rename", "os.kill")


def _hook(event, args):
    if not _armed:
        return
    if event == "import":
        if not args[0].startswith("encodings"):
            _events.append(event + ":" + args[0])
    elif event.startswith(_BAD):
        _events.append(event)


b"x".decode("utf-8"), b"\xff".decode("latin-1"), int("12")
try:
    b"\xff".decode("utf-8")
except UnicodeDecodeError:
    pass
sys.addaudithook(_hook)

stats = {"execs": 0, "excluded": 0, "outcomes": {}, "nontrivial_distinct": 0, "examples": []}
buckets = {}
seen_nt = set()


def flush():
    tmp = os.path.join(OUT, "stats.json.tmp")
    with open(tmp, "w") as f:
        json.dump(stats, f)
    os.replace(tmp, os.path.join(OUT, "stats.json"))


def frame_of(e):
    tb = e.__traceback__
    best = "-"
    while tb is not None:
        fn = os.path.realpath(tb.tb_frame.f_code.co_filename)
        if fn.startswith(src):
            best = os.path.basename(fn) + ":" + tb.tb_frame.f_code.co_name
        tb = tb.tb_next
    return best


def record(bucket, data):
    if bucket not in buckets:
        buckets[bucket] = True
        with open(os.path.join(OUT, "viol-%d" % len(buckets)), "wb") as f:
            f.write(data)
        flush()


def test_one(data):
    global _armed
    stats["execs"] += 1
    if stats["execs"] % 4096 == 0:
        flush()
    if R.max_newlist(data) > CAP:
        stats["excluded"] += 1
        return
    del _events[:]
    _armed = True
    try:
        try:
            res = gb.loads(data)
            out = "value"
        except gb.DataFormatError:
            out = "DataFormatError"
        except EOFError:
            out = "EOFError"
        except BaseException as e:  # noqa: BLE001
            _armed = False
            record("wrong-exception/%s/%s" % (type(e).__name__, frame_of(e)), data)
            out = "violation"
    finally:
        _armed = False
    if _events:
        record("side-effect/" + _events[0], data)
        out = "violation"
    if out == "value" and not V.only_supported(res):
        record("foreign-type", data)
        out = "violation"
    stats["outcomes"][out] = stats["outcomes"].get(out, 0) + 1
    if data[:1] == b"\x02" and len(seen_nt) < 2000000:
        toks = R.tokenize(data)
        if toks and toks[0][1] is not None and toks[0][2] != "short" and not isinstance(toks[0][2], tuple):
            h = hashlib.blake2b(data, digest_size=8).digest()
            if h not in seen_nt:
                seen_nt.add(h)
                stats["nontrivial_distinct"] = len(seen_nt)
                if len(stats["examples"]) < 5 and out != "violation" and len(data) > 6:
                    stats["examples"].append({"input": data.hex(), "outcome": out})


def main():
    argv = [sys.argv[0]] + [a for a in sys.argv[1:]]
    atheris.Setup(argv, test_one)
    flush()
    try:
        atheris.Fuzz()
    finally:
        flush()


if __name__ == "__main__":
    main()
