#!/bin/sh
# tools/seedtest.sh <patch.diff> <Cnn> [extra check args]   -- apply a seeded change to /repo, run the check, undo
P="$1"; C="$2"; shift 2
cd /repo || exit 2
if [ -n "$(git status --porcelain)" ]; then echo "repo dirty"; exit 2; fi
if ! git apply "$P" 2>/tmp/seedtest.err; then
  if ! git apply --3way "$P" 2>>/tmp/seedtest.err; then echo "PATCH DOES NOT APPLY: $P"; tail -3 /tmp/seedtest.err; git reset -q --hard HEAD; exit 3; fi
  git reset -q
fi
cd /verif && ./check "$C" --tier quick "$@" 2>&1 | grep -E "^\[|bucket|VIOLATION|^OK|HARNESS|INCONCL" | head -24
git -C /repo reset -q --hard HEAD
git -C /repo status --short | head -3
