#!/usr/bin/env python3
"""Run the property's own quick check against every kept seeded change (applied to a scratch worktree of /repo HEAD,
never to /repo itself) and record in seeded/<id>/meta.json whether and how it is detected."""
import json
import os
import re
import subprocess
import sys

SCR = "/tmp/scratch-seed"


def sh(cmd, cwd=None, env=None, timeout=3600):
    p = subprocess.run(cmd, shell=True, cwd=cwd, env=env, capture_output=True, text=True, timeout=timeout)
    return p.returncode, p.stdout + p.stderr


CROSS = {"C06-2": "C07", "C10-2": "C04", "C16-2": "C05", "C11-1": "C04", "C10-3": "C04", "C07-4": "C08", "C02-3": "C18", "C05-3": "C16", "C06-4": "C03", "C11-4": "C04", "C08-3": "C19", "C10-4": "C04", "C02-1": "C08", "C03-5": "C06"}  # seeds whose effect lies in another check's domain


def main(only=None):
    if not os.path.isdir(SCR):
        sh(f"git -C /repo worktree add --detach {SCR} HEAD")
    sh(f"git -C {SCR} checkout -q --detach $(git -C /repo rev-parse HEAD)")
    sh(f"cp /repo/src/execnet/_version.py {SCR}/src/execnet/_version.py")
    for d in sorted(os.listdir("/verif/seeded")):
        if only and d not in only:
            continue
        full = f"/verif/seeded/{d}"
        meta = json.load(open(f"{full}/meta.json"))
        prop = meta["property"]
        patch = f"{full}/patch.ported-to-fixed-tree.diff" if os.path.exists(f"{full}/patch.ported-to-fixed-tree.diff") else f"{full}/patch.diff"
        sh("git reset -q --hard HEAD", cwd=SCR)
        rc, o = sh(f"git apply {patch}", cwd=SCR)
        if rc != 0:
            rc, o = sh(f"git apply --3way {patch} && git reset -q", cwd=SCR)
            if rc != 0 or "<<<<<<<" in open(f"{SCR}/src/execnet/gateway_base.py").read():
                rc = 1
                sh("git reset -q --hard HEAD", cwd=SCR)
        if rc != 0:
            meta["detection"] = dict(applies_to_current_tree=False, note=o[-300:])
            json.dump(meta, open(f"{full}/meta.json", "w"), indent=1)
            print(d, "DOES NOT APPLY")
            continue
        env = dict(os.environ, VERIF_REPO=SCR)
        rc, o = sh(f"timeout 1500 ./check {prop} --tier quick", cwd="/verif", env=env)
        buckets = sorted(set(re.findall(r"^  bucket (\S+)", o, re.M)))
        parts = sorted(set(re.findall(r"replay=replays/\w+/([a-z-]+)-[0-9a-f]+\.json", o)))
        meta["detection"] = dict(applies_to_current_tree=True, check=f"./check {prop} --tier quick", exit_code=rc,
                                 detected=rc == 1, buckets=buckets[:8], parts=parts,
                                 patch_used=os.path.basename(patch))
        if rc != 1 and d in CROSS:
            other = CROSS[d]
            rc2, o2 = sh(f"timeout 1500 ./check {other} --tier quick", cwd="/verif", env=env)
            meta["detection"]["other_check"] = dict(check=f"./check {other} --tier quick", exit_code=rc2, detected=rc2 == 1,
                                                    buckets=sorted(set(re.findall(r"^  bucket (\S+)", o2, re.M)))[:8])
            print(d, "  by", other, ":", "DETECTED" if rc2 == 1 else f"missed (rc={rc2})", flush=True)
        json.dump(meta, open(f"{full}/meta.json", "w"), indent=1)
        print(d, "DETECTED" if rc == 1 else f"missed (rc={rc})", parts, buckets[:3], flush=True)
    sh("git reset -q --hard HEAD", cwd=SCR)


if __name__ == "__main__":
    main(set(sys.argv[1:]) or None)
