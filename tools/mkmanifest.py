#!/usr/bin/env python3
"""Regenerate MANIFEST.json from the table below (keeps the manifest valid at all times)."""
import json, os, sys

HERE = os.path.dirname(os.path.dirname(os.path.abspath(__file__)))
sys.path.insert(0, HERE)

CLAIMED = {
    # id: (technique, level text, level note, design ref)
    "C01": ("Hypothesis value grammar + round-trip with type-exact fingerprint; unsupported-leaf-at-position generator; real popen echo worker",
            "Generated-input search: every generated supported value must round-trip through dumps/loads, dump/load over BytesIO and mmap, a real channel and remote_exec kwargs with an identical type-exact fingerprint; every generated unsupported value must raise DumpError with no EXEC/DATA frame on the wire and the channel usable afterwards.",
            "Sampling, not proof. Trusts vlib/values.py (fingerprint, JSON codec). Nesting depth <= 100.", "3/C01"),
    "C12": ("differential against an independent reference codec (byte-for-byte), legacy-opcode stream grammar x 4 coercion settings, injected frames on a real Gateway, cross-interpreter and released-version differential",
            "Generated-input search with an independent reference encoder/decoder as oracle: dumps must equal the reference bytes; reference streams incl. Python-2 opcodes must load per the documented coercion table through loads/load/channels/gateways; foreign version bytes must raise DataFormatError; the same values and dumps are exchanged with the tree's code on the other CPython versions and with the released execnet.",
            "Sampling. Trusts vlib/refcodec.py as the format description. Python 2 producers are modelled, not run.", "3/C12"),
    "C13": ("opcode-soup grammar, exhaustive single-byte mutation neighbourhoods of small dumps, atheris coverage-guided fuzzing; audit-hook side-effect oracle",
            "Generated and exhaustively mutated byte strings are fed to loads under an oracle that accepts only a value of supported builtin types, DataFormatError or EOFError, forbids any audit event that would mean code execution or I/O, requires termination, and requires every strict prefix of a valid dump to fail. Mutation neighbourhoods are complete per seed; everything else is sampled or coverage-guided.",
            "Inputs with NEWLIST counts > 65536 are excluded and counted (known allocation finding, confirmed per run in a memory-limited child). atheris needs /opt/veriftools/pyvenv.", "3/C13"),
    "C19": ("model-based testing against io.StringIO/io.BytesIO over generated item splits and read/readline call sequences; wire parsed with the reference frame codec for the writer",
            "Generated-input search with the standard library's in-memory files as reference model: every generated sequence of read(n)/readline() on a channel file over every generated split (incl. empty items, text and bytes, prefilled or fed concurrently) must return what the model returns call by call and emptiness afterwards; writer sequences must put exactly one DATA frame per write on the wire, refuse writes after close with OSError and close the channel iff proxyclose.",
            "Sampling. '\\n' is the only line terminator of the model. Real threads in feeder mode (results compared, schedule not owned).", "3/C19"),
    "C20": ("reference-parser differential over a generated spec grammar; duplicate-key generator; model-based histories over a real Group",
            "Generated-input search: generated key/value lists are rendered to spec text and parsed by XSpec and by a 20-line reference parser (attributes, env mapping, None for absent names, str round-trip, equality/hash by text, ValueError for any repeated key); generated histories of makegateway(auto/explicit colliding ids)/exit/terminate on a real group are checked against a list model after every step.",
            "Sampling. The reference parser is the specification of the syntax. Concurrent allocate_id schedules are part of the scheduler-based checks (added with engine E3).", "3/C20"),
    "C09": ("schedule exploration on a deterministic-scheduler ExecModel (generated dense schedules + bounded line-level preemption; exhaustive single line-preemption of small scenarios); generated pool scenarios with a counting oracle",
            "Generated pool scenarios (spawners, tasks that return/raise/block, racing trigger_shutdown/terminate, waitall and timed get callers, integrated primary thread, both thread backends) run on the real WorkerPool with every lock/event/queue/thread operation as a generated scheduling point and optional preemption at source lines; the oracle counts executions per accepted task, compares reply values and exception identity, checks waitall/terminate truthfulness against the set of tasks accepted before the call and treats a decided 'blocks forever' as a violation. Small scenarios get every single line-preemption enumerated. remote_exec followed by exit() is checked on an in-process gateway pair.",
            "Sampling of schedules except the exhaustive single-preemption slices. The scheduler serialises real threads at real operations (legal CPython executions only); primitives are differentially self-tested each run; virtual time.", "3/C09"),
    "C02": ("model-based conversation programs on an in-process gateway pair under a deterministic scheduler (generated bounded-preemption schedules, line-level preemption, strided/exhaustive single preemption), scripted transports with generated chunking; transcript oracle; real-thread cross-check",
            "Generated multi-channel, multi-thread conversation programs are executed with both gateway ends in one process on a scheduler that owns every lock/event/queue/thread/transport operation; the transcript oracle derives from the program alone what every consumer must have seen (multiset, per-sender order, exact sequence for single consumers, no foreign items). The same programs run on real popen workers with payloads up to 300 KB (quick) / 4 MB (thorough).",
            "Sampling of schedules; single-preemption slices are complete only in the thorough tier. Scheduler fidelity is self-tested per shard. Cross-sender order is not asserted.", "3/C02"),
    "C08": ("round-trip of generated frames through the real IO classes over scripted transports with generated chunking vs. a reference frame codec; concurrent senders under the deterministic scheduler with a wire-parsing oracle; real multi-threaded transfers over popen/socket/via",
            "Generated messages (all types, full channel-id range, payloads to 256 KB / 8 MB) must produce exactly the reference frame bytes and be read back identically under every generated read chunking and partial-send pattern; with 2-5 concurrent sender threads under a generated schedule (plus line-level and strided/exhaustive single preemption) the recorded wire must parse into whole reference frames with per-sender order intact; real transports carry multi-sender programs with payloads beyond pipe/socket buffers and a transcript oracle.",
            "Sampling. Scripted transports model documented OS behaviour (short reads, partial sends, atomic pipe write per call). Real part has a 150 s watchdog per program (normal < 2 s).", "3/C08"),
    "C14": ("generated remote_exec histories on an in-process main_thread_only worker under the deterministic scheduler (virtual time), history oracle; sampled on real popen workers with real SIGINT",
            "Generated histories (return / raise / SystemExit / interrupt / blocked, sequential or overlapping submission) run against a real WorkerGateway with the main_thread_only model inside the scheduler, so receiver-vs-main-thread interleavings and the 1-second grace wait are generated/virtual; the oracle checks thread identity of every body, strict start/end alternation in submission order, the documented deadlock error exactly for overlapping submissions, and that a submission after the previous close always runs.",
            "Sampling. Virtual time models 'threads are fast relative to the 1 s wait'. Real part small (16 quick / 400 thorough histories).", "3/C14"),
    "C03": ("generated close histories (explicit / end of exec / reference drop, exec and sub channels) on an in-process gateway pair under the deterministic scheduler; transcript + state oracle + wire parse; focused exhaustive single preemption inside the close/receive functions",
            "Generated conversations in which one side sends items and then closes a channel in one of the three ways while the peer has several blocked receivers and waitclose callers; executed with both ends in-process under generated schedules and line-level preemption. The oracle requires exact, ordered delivery of everything sent before the close, repeated EOFError for every receiver, waitclose returning, the documented post-close state (send OSError, isclosed, immediate waitclose, harmless second close with no second frame on the wire) on the closing side at once and on the peer once it observed the close.",
            "Sampling of schedules; the focused single-preemption enumeration is complete only in the thorough tier (strided in quick). 'sendonly' after dropping a channel with a callback is treated as documented.", "3/C03"),
    "C07": ("generated failure positions in conversation programs (raising exec bodies and raising callbacks on either side, exec and sub channels, dropped channel objects, healthy siblings) under the deterministic scheduler; transcript oracle; focused exhaustive single preemption in the error-propagation functions; generated failure sequences under every gw.reconfigure() setting on a real worker",
            "Generated programs with one or two failing conversations and up to two healthy siblings run with both gateway ends in-process under generated schedules; the oracle requires all earlier items, exactly one RemoteError with type/message/traceback text, EOFError afterwards, a proper error on the failing side's own channel, untouched sibling transcripts and a gateway that still executes a fresh remote_exec. Part reconf repeats raising bodies / raising remote callbacks under all four string-coercion settings of the gateway on a real popen worker.",
            "Sampling of schedules; focused single-preemption enumeration complete for scenarios up to 1200 focus lines. For a dropped channel with a callback the documented 'sendonly' state limits what the peer can observe.", "3/C07"),
    "C10": ("generated moments of setcallback relative to in-flight items and to the peer's close, stream ends by close / end of exec / raising body, MultiChannel receive queues; deterministic scheduler with generated schedules and focused exhaustive single preemption; sequence oracle",
            "Generated conversations switch a consumer from receive() to a callback before, between or after the items and after the peer's close, with and without endmarker, on exec and sub channels on either side, plus MultiChannel.make_receive_queue over 2-4 members; both gateway ends run in-process under generated schedules. The oracle demands items-by-receive + callback log == sent sequence exactly, one endmarker last iff requested, and refusal of receive()/second setcallback afterwards. Connection loss as stream end is covered by C04.",
            "Sampling of schedules; focused single-preemption enumeration strided in the quick tier, complete in the thorough tier.", "3/C10"),
    "C04": ("fault enumeration: every cut offset of generated frame streams against a reference frame parser, under the deterministic scheduler with generated waiters; focused exhaustive single preemption around connection loss; real SIGKILLs of workers and forwarders",
            "Generated peer-to-survivor frame streams are cut after every byte offset and delivered with generated chunking through the real IO classes to a real Gateway with generated blocked receivers, waitclose callers, callbacks (also registered while the loss is processed), senders and dropped channels; the reference parser decides which frames arrived completely and hence exactly what every waiter must see before EOFError; 'blocks forever' is decided by the scheduler. A second part enumerates every single line-level preemption inside the loss/registration functions; a third kills real popen/socket/via workers (or the forwarding gateway) at generated moments.",
            "Cut offsets are exhaustive per stream (streams up to 420 bytes); schedules sampled / single-preemption enumerated. Real part: 30 s bound.", "3/C04"),
    "C18": ("concurrent channel creation and channel-over-channel transfer programs under the deterministic scheduler (generated schedules, focused exhaustive single preemption); token-routing and id oracle; table-size comparison after N and 2N cycles on a real worker",
            "Generated programs create channels concurrently on both sides of an in-process gateway pair, pass them over channels (bare and nested in list/tuple/dict), exchange tokens both ways and close or drop them; ids must be distinct per side and disjoint between sides, every token must arrive on its own channel, transferred channels keep their id, and all tables must be empty once everything settled. On a real popen worker the table sizes after N and after 2N cycles are compared (growth is the claim).",
            "Sampling of schedules; focused single-preemption enumeration strided in quick. History lengths 200 (quick) / 3000 (thorough) cycles.", "3/C18"),
    "C05": ("generated groups of real workers (topologies x execmodels x remote activities x injected signals x timeouts) and generated failing makegateway calls; wall-clock bound and /proc process census as oracle",
            "Generated real groups (popen, python=, socket//installvia, via; thread / main_thread_only / gevent) whose members are idle, blocked, busy, sleeping, interrupt-proof, stopped, killed or multi-threaded are terminated with a generated timeout; the oracle measures the return time against 6*timeout+3 s, requires an empty group and uses a /proc census to require that every recorded worker and every process started by the case is gone; failing makegateway calls (taken ids, bad specs) must leave nothing behind.",
            "Real processes: the OS schedule is not owned; the time bound detects loss of the bound, not drift. Bounded concurrency (6 shards).", "3/C05"),
    "C11": ("fault injection on real initiator processes (generated worker activities x ways and moments of the initiator's end, SIGSTOP census for kills during bootstrap) with a /proc liveness oracle; the worker side modelled in-process under the deterministic scheduler with virtual time and single/pairwise preemption enumeration",
            "Generated initiator processes create real workers with generated activities and then return, _exit, exit their gateways or are SIGKILLed at generated moments (also during bootstrap); every worker pid must be gone within 25 s. In addition the real WorkerGateway runs in-process under the scheduler with bodies that block, sleep, allocate channels, send or sit in a never-returning callback while the initiator vanishes: within 16 virtual seconds serve() must return or os._exit must be reached, under generated schedules and enumerated preemptions of the shutdown path.",
            "Real part: OS schedule not owned, bound 25 s vs. 15 s ladder. In-process part: a busy loop cannot be modelled (a spinning managed thread never yields), SIGINT delivery is recorded, not performed.", "3/C11"),
    "C06": ("grammar-generated remote programs in three forms (string, function with generated kwargs, module) executed on real popen/socket/via/main_thread_only gateways; differential oracle against a local interpretation with a recording channel; traceback line oracle; generated must-reject function shapes with a wire/byte-count oracle",
            "Programs generated from a statement grammar (sends, loops, imports, try/except, refused explicit close, stdio writes up to 1 MB on every stream, a raise at a generated statement, a park in receive) are rendered as source strings, functions in generated module files with kwargs of all serialisable types, and modules, and run on real gateways of every transport; a local interpretation predicts every item, the RemoteError must name the generated file and the exact line, the channel must be open while the body is parked and end exactly when it finishes, rejected function shapes must raise locally with nothing written and no channel id consumed.",
            "Real workers. Must-reject shapes include nine generated 'global read next to a same-named inner parameter / local / comprehension variable' forms; one of them is a known finding on Python >= 3.12. Worker stderr redirected to /dev/null.", "3/C06"),
    "C15": ("generated channel programs on every bootstrap path x isolated interpreters (-I -S, CPython 3.10-3.13) x execmodels with the C02 transcript oracle and remote preconditions; exhaustive sweep of the shipped sources' imports and free names",
            "Generated conversation programs run on workers bootstrapped by import, python=, via an isolated forwarder, socket via an isolated host, the stand-alone socketserver.py under an isolated interpreter and a stub-ssh path, on every CPython present started with -I -S; each case first verifies remotely that execnet is not importable there, then compares the threads in which three consecutive bodies run with the import-bootstrapped reference, applies the C02 transcript oracle and finally requires that no execnet module got loaded; pipe-fed paths are also run with ascii / latin-1 standard streams on the remote interpreter. A finite-domain sweep executes every import statement of the shipped sources in every isolated interpreter and resolves every global name used in functions of the bootstrap source.",
            "ssh only through a local stub; vagrant not exercised; gevent/eventlet unavailable without site-packages. The static part is an exhaustive enumeration, reported as such.", "3/C15"),
    "C16": ("differential testing across transports: the same generated channel program on popen (reference), python=, via and socket gateways for thread / main_thread_only / gevent workers; per-run transcript oracle plus equality of normalised transcripts",
            "Generated schedule-independent channel programs (typed payloads up to 300 KB / 8 MB, sub-channels, callbacks, raising bodies and callbacks, close/end/raise stream ends) are run unchanged on a direct popen gateway and on the python=, via and socket transports for each remote execmodel; every run must satisfy its own transcript oracle and its normalised transcript must equal the reference transport's. Part exitdrain: gw.exit() while the body still sends - items and end observed afterwards must be the same on popen, via and socket.",
            "Real workers, OS schedule not owned; only schedule-independent programs are compared; racy send outcomes are normalised away. Control path (terminate/kill through a proxy) is covered by C05.", "3/C16"),
    "C17": ("model-based histories over generated file trees (source tree, prior target states, delete flag, 1-3 targets, caller cwd, modify-and-resync steps) on real gateways; independent tree-walker oracle and no-transfer oracle for re-syncs",
            "Generated source trees with awkward names, modes, mtimes and every symlink flavour are synced onto generated prior target states (incl. entries of another kind), with and without delete, to up to three targets, from four working directories, followed by generated modify/re-sync steps and a final re-sync; an independent snapshot walker checks kind, bytes, permission bits, mtimes, the symlink rule, deletion/preservation of foreign entries, and that an unchanged re-sync transfers and changes nothing.",
            "Sampling. Runs as root (mode bits stored, not enforced). Quick-check coincidences (same size and mtime, other content) are excluded by construction and counted.", "3/C17"),
}

NOT_APPLICABLE = {}

def main():
    props = [json.loads(l) for l in open(os.path.join(HERE, "properties.jsonl"))]
    checks = []
    for p in props:
        pid = p["id"]
        if pid not in CLAIMED:
            continue
        tech, text, note, ref = CLAIMED[pid]
        checks.append(dict(
            property_id=pid,
            quick_cmd=f"./check {pid} --tier quick",
            thorough_cmd=f"./check {pid} --tier thorough",
            evidence_file=f"evidence/{pid}.json",
            replay_cmd_template=f"./check {pid} --replay {{path}}",
            engine="vlib",
            level_claimed=dict(category="exploration", text=text, design_ref="DESIGN.md section " + ref),
            level_note=note,
            technique=tech,
        ))
    na = [dict(property_id=p["id"], reason=NOT_APPLICABLE.get(p["id"], "check not built yet in this session (work in progress); see DESIGN.md section 3"))
          for p in props if p["id"] not in CLAIMED]
    man = dict(
        version=1,
        setup_cmd="/venv/bin/python -c 'import hypothesis' 2>/dev/null || /venv/bin/pip install --no-index --find-links /opt/veriftools/wheels hypothesis",
        hooks=dict(guard="EXECNET_VERIF", enable="no source hooks: instrumentation goes through execnet's own ExecModel/IO seams and harness-side substitution; checks import /repo/src directly",
                   baseline_off_cmd="cd /repo && /venv/bin/python -m pytest -ra -q -p no:cacheprovider --timeout=900 --continue-on-collection-errors",
                   source_commits=[], add_only=True),
        engines=[dict(name="vlib", path="vlib/", serves_properties=sorted(CLAIMED),
                      kind_free_text="Hypothesis-driven property-based testing (values, programs, histories, schedules, fault points), exhaustive enumeration of small finite slices, atheris for the byte-level parser; runner shards cases over 16 processes")],
        checks=checks,
        notes="All checks: cwd=/verif, ./check <id> --tier quick|thorough; VERIF_SEED selects the Hypothesis seed; exit 0/1/2 = held / violation / harness error or inconclusive. Known findings: KNOWN_FINDINGS.txt.",
        not_applicable=na,
    )
    json.dump(man, open(os.path.join(HERE, "MANIFEST.json"), "w"), indent=1)
    import jsonschema
    jsonschema.validate(man, json.load(open("/root/.vp/MANIFEST.schema.json")))
    print("MANIFEST ok:", len(checks), "claimed,", len(na), "not claimed")

if __name__ == "__main__":
    main()
