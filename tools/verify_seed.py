#!/usr/bin/env python3
"""Confirm one seeded change independently: in the scratch worktree /tmp/seed/<Cnn> (original commit) the demo must
pass without the patch and fail with it, and the repository's own test suite must still pass with it (up to the tests
that are already flaky on the unchanged tree).  Writes /verif/seeded/<Cnn>-<n>/ (patch.diff, demo.py, meta.json)."""
import json
import os
import re
import shutil
import subprocess
import sys

FLAKY = ("test_channel_passing_over_channel", "test_dont_write_bytecode", "test_waitclose_on_remote_killed", "test__rinfo")


def sh(cmd, cwd=None, env=None, timeout=1800):
    try:
        p = subprocess.run(cmd, shell=True, cwd=cwd, env=env, capture_output=True, text=True, timeout=timeout, start_new_session=True)
    except subprocess.TimeoutExpired:
        return 124, "TIMEOUT after %s s" % timeout
    return p.returncode, p.stdout + p.stderr


def main(prop, n, base="/tmp/seed", outn=None):
    outn = outn or n
    wt = f"{base}/{prop}"
    out = f"{base}/{prop}-out"
    patch = f"{out}/patch{n}.diff"
    demo = f"{out}/demo{n}.py"
    env = dict(os.environ, PYTHONPATH=f"{wt}/src")
    meta = dict(property=prop, n=outn, written_against="original commit c817090" if base == "/tmp/seed" else "the repaired tree (/repo HEAD at the time)")
    sh("git checkout -- . && git clean -fdq -e src/execnet/_version.py", cwd=wt)
    rc0, o0 = sh(f"/venv/bin/python {demo}", cwd=out, env=env, timeout=600)
    meta["demo_without_patch_exit"] = rc0
    rc, o = sh(f"git apply {patch}", cwd=wt)
    meta["patch_applies_to_original"] = rc == 0
    rc1, o1 = sh(f"/venv/bin/python {demo}", cwd=out, env=env, timeout=180)
    meta["demo_with_patch_exit"] = rc1
    meta["demo_with_patch_output_tail"] = o1[-600:]
    rc2, o2 = sh("/venv/bin/python -m pytest -q -p no:cacheprovider --timeout=900 testing 2>&1 | grep -E '^FAILED|passed|failed' | tail -12",
                 cwd=wt, env=env)
    failed = re.findall(r"^FAILED (\S+)", o2, re.M)
    meta["suite_summary"] = o2.strip().splitlines()[-1] if o2.strip() else ""
    meta["suite_failures"] = failed
    meta["suite_failures_beyond_known_flaky"] = [f for f in failed if not any(k in f for k in FLAKY)]
    sh("git checkout -- .", cwd=wt)
    meta["confirmed"] = bool(rc0 == 0 and rc1 != 0 and meta["patch_applies_to_original"] and not meta["suite_failures_beyond_known_flaky"])
    notes = open(f"{out}/notes.md").read() if os.path.exists(f"{out}/notes.md") else ""
    meta["needs_to_manifest"] = ""
    meta["what_was_run"] = [f"PYTHONPATH={wt}/src /venv/bin/python demo{n}.py  (without patch: exit {rc0}; with patch: exit {rc1})",
                            f"cd {wt} && PYTHONPATH={wt}/src /venv/bin/python -m pytest -q -p no:cacheprovider --timeout=900 testing  -> {meta['suite_summary']}"]
    d = f"/verif/seeded/{prop}-{outn}"
    os.makedirs(d, exist_ok=True)
    shutil.copy(patch, f"{d}/patch.diff")
    shutil.copy(demo, f"{d}/demo.py")
    ported = f"{out}/patch{n}.ported.diff"
    if os.path.exists(ported):
        shutil.copy(ported, f"{d}/patch.ported-to-fixed-tree.diff")
    # the agent's own description of this patch
    m = re.split(r"(?im)^#+ .*patch\s*%d.*$" % n, notes)
    meta["author_notes_excerpt"] = (m[1] if len(m) > 1 else notes)[:1800]
    json.dump(meta, open(f"{d}/meta.json", "w"), indent=1)
    print(prop, outn, "confirmed" if meta["confirmed"] else "NOT CONFIRMED", rc0, rc1, meta["suite_summary"], meta["suite_failures_beyond_known_flaky"])


if __name__ == "__main__":
    main(sys.argv[1], int(sys.argv[2]), *(sys.argv[3:4]), **({"outn": int(sys.argv[4])} if len(sys.argv) > 4 else {}))
