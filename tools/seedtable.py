#!/usr/bin/env python3
"""markdown table of the kept seeded changes and how they are detected (from seeded/*/meta.json)"""
import json
import os
import re

rows = []
for d in sorted(os.listdir("/verif/seeded")):
    m = json.load(open(f"/verif/seeded/{d}/meta.json"))
    det = m.get("detection", {})
    what = m.get("summary") or re.sub(r"\s+", " ", m.get("author_notes_excerpt", ""))[:150]
    if det.get("detected"):
        how = "**yes**: " + ", ".join(det.get("parts", [])) + " (" + "; ".join(b.split("/")[0] for b in det.get("buckets", [])[:2]) + ")"
    elif det.get("other_check", {}).get("detected"):
        oc = det["other_check"]
        how = "own check no; **" + oc["check"].split()[1] + " yes** (" + "; ".join(b.split("/")[0] for b in oc["buckets"][:2]) + ")"
    elif not det.get("applies_to_current_tree", True):
        how = "patch does not apply to the fixed tree"
    elif d == "C16-2":
        how = "no longer a defect: after fix bf6d75f the swapped wait/join is harmless (the forwarder answers RIO_WAIT in a thread of its own); C05 detected it before that fix"
    else:
        how = "**no**"
    rows.append((d, what, how))
print("| Seed | Change (needs what to manifest) | Detected by the quick tier |")
print("|---|---|---|")
for r in rows:
    print("| %s | %s | %s |" % r)
